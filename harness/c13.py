"""C13 - namespace operations stay inside the subtree they are applied to.

The hidden state that matters (which nodes alias one nsmap dict) is created by history, so
TLC's graph of MC_Ns is replayed along *paths* on persistent real objects:
  (a) all paths from the initial states to a depth bound;
  (b) product exploration: breadth-first over the implementation's reachable
      (abstract state, alias partition) pairs, applying every operation TLC allows;
  (c) code -> spec: long random histories (6-10 nodes, 3 prefixes) judged by TraceForest.
Frame / NsEffect are action properties model-checked on the spec (also N=4 in thorough).
"""
import os
import random

from harness import common
from harness.common import MachineryError, run_tlc, SPEC, workdir, parallel, judge_traces
from harness.world import World, canon, jdump
from harness.c09 import load_log, reachable

PID = "C13"
FIELDS = ("kids", "ns")
G = {}


def desc_ids(state, c):
    out, stack = set(), [c]
    while stack:
        x = stack.pop()
        out.add(x)
        stack += state["kids"][x - 1]
    return out


def step(w, op, frm, to):
    """Apply op; returns (verdict, detail): verdict in ok / violation:<clause> / diverged."""
    ok, ret, exc = w.apply(op["name"], op["args"])
    if not ok:
        return f"raised:{type(exc).__name__}", repr(exc)
    after = w.pi(FIELDS)
    if canon(after, FIELDS) == canon(to, FIELDS):
        return "ok", ""
    if canon(after, ("kids",)) != canon(to, ("kids",)):
        return "kids", f"expected {jdump(to['kids'])} got {jdump(after['kids'])}"
    # namespace mismatch: which nodes?
    target = op["args"][1] if op["name"] == "add_child" else op["args"][0] if op["name"] in ("add_namespace", "remove_namespace") else None
    inside = desc_ids(frm if op["name"] != "remove_child" else to, target) if target else set()
    diff = [i + 1 for i in range(len(to["ns"])) if sorted(map(tuple, to["ns"][i])) != sorted(map(tuple, after["ns"][i]))]
    outside = [m for m in diff if m not in inside]
    det = f"nodes {diff}: expected ns {jdump(to['ns'])} got {jdump(after['ns'])}"
    if outside:
        return "frame", f"binding changed outside the target subtree at node(s) {outside}; " + det
    if op["name"] == "add_child":
        if target in diff:
            return "attach-merge", det
        return "diverged", det          # below the attached child: modelled, not judged
    return "effect", det


def decorate(w):
    """G['node_prefix']: every node carries this value in its own `prefix` field (the field an XML import sets on a
    qualified element).  Which bindings a node SEES is a matter of the namespace maps alone."""
    if G.get("node_prefix"):
        for x in w.nodes:
            x.prefix = G["node_prefix"]
    return w


def w_paths(tasks):
    out, n, div = [], 0, 0
    graph, states = G["graph"], G["states"]

    def run_path(edges):
        nonlocal n, div
        w = decorate(World.build(states[edges[0][0]], ids=(lambda j: "one-id") if G.get("same_ids") else None))
        ops = []
        for (fk, op, tk) in edges:
            ops.append(op)
            v, det = step(w, op, states[fk], states[tk])
            if v == "diverged":
                div += 1
                return False
            if v != "ok":
                out.append((f"{op['name']}:{v}", det, {"kind": "path", "init": states[edges[0][0]], "ops": ops}))
                return False
        n += 1
        return True

    def dfs(edges, key, depth):
        if not run_path(edges) or depth == 0:
            return
        for (op, tk) in graph[key]:
            dfs(edges + [(key, op, tk)], tk, depth - 1)

    for (ik, depth, ei) in tasks:
        op, tk = graph[ik][ei]
        dfs([(ik, op, tk)], tk, depth - 1)
    return n, out, div


def w_expand(items):
    """items: list of access paths (tuples of edges). For each, apply every enabled op."""
    res = []
    graph, states = G["graph"], G["states"]
    for (ik, path) in items:
        # current abstract key
        key = path[-1][2] if path else ik
        for (op, tk) in graph[key]:
            w = decorate(World.build(states[ik], ids=(lambda j: "one-id") if G.get("same_ids") else None))
            bad = None
            for (fk, o, t2) in path:
                v, det = step(w, o, states[fk], states[t2])
                if v != "ok":
                    bad = ("prefix", v, det)
                    break
            if bad:
                continue     # reported when that prefix was first expanded
            v, det = step(w, op, states[key], states[tk])
            part = w.alias_partition()
            res.append((ik, path + ((key, op, tk),), tk, part, v, det))
    return res


def record_history(seed, nnodes, nsteps):
    rnd = random.Random(seed)
    w = World()
    for i in range(nnodes):
        w.new("a")
    fields = ("name", "kids", "ns", "content", "tail", "prefix", "attrs", "extras", "store")
    tr = {"init": w.pi(fields), "events": []}
    prefixes, uris = ["x", "y", "z"], ["u", "u/", "U", ""]         # look-alike URIs: namespace names are compared as plain strings
    N = nnodes

    def listed(c):
        return any(w.n(c) in p.children for p in w.nodes)

    for _ in range(nsteps):
        kind = rnd.choice(["add", "add", "add", "detach", "declare", "declare", "declare", "redeclare", "redeclare", "remove"])
        p = rnd.randint(1, N)
        if kind == "add":
            free = [x for x in range(1, N + 1) if not listed(x) and w.n(p) not in reachable(w.n(x))]
            if not free:
                continue
            ev = ("add_child", [p, rnd.choice(free), -1 if rnd.random() < 0.7 else rnd.randint(0, len(w.n(p).children))])
        elif kind == "detach":
            ps = [x for x in range(1, N + 1) if w.n(x).children]
            if not ps or rnd.random() < 0.5:
                continue
            p = rnd.choice(ps)
            ev = ("remove_child", [p, w.ident(rnd.choice(w.n(p).children))])
        elif kind == "declare":
            ev = ("add_namespace", [p, rnd.choice(prefixes), rnd.choice(uris)])
        elif kind == "redeclare":
            have = list(w.n(p).nsmap)
            if not have:
                continue
            q = rnd.choice(have)
            ev = ("add_namespace", [p, q, rnd.choice([u for u in uris if u != w.n(p).nsmap[q]])])
        else:
            ev = ("remove_namespace", [p, rnd.choice(prefixes)])
        ok, ret, exc = w.apply(*ev)
        e = {"op": ev[0], "args": ev[1], "ok": ok, "ret": 0, "post": w.pi(fields)}
        if exc is not None:
            e["exc"] = type(exc).__name__
        tr["events"].append(e)
    return tr


def w_histories(jobs):
    return [record_history(*j) for j in jobs]


def explore(rep, cfg, do_paths, max_keys, report):
    """Model-check one MC_Ns instance, then replay its graph: all paths to depth 4 (optional) and the product
    exploration of (abstract state x alias partition)."""
    wd = workdir(PID, "mc", wipe=True)
    out = os.path.join(wd, "mc.out")
    r = run_tlc("Metapype", cfg=os.path.join(SPEC, cfg), stdout_path=out, timeout=2400)
    if not r.ok or r.invariant_violated or r.action_prop_violated:
        raise MachineryError(f"{cfg}: the specification violates its own properties:\n" + r.out[-2000:])
    rep.add_tlc(r, cfg)
    T, Q = load_log(out)
    os.remove(out)
    states, graph = {}, {}
    T2 = [t for t in T if t["k"] == "T"]
    for t in T2:
        for s in (t["from"], t["to"]):
            k = canon(s, FIELDS)
            if k not in states:
                states[k] = s
                graph[k] = []
    for t in T2:
        graph[canon(t["from"], FIELDS)].append((t["op"], canon(t["to"], FIELDS)))
    if len(states) != r.distinct:
        raise MachineryError(f"transition log incomplete: {len(states)} states seen, {r.distinct} distinct")
    opcount = {}
    for t in T2:
        opcount[t["op"]["name"]] = opcount.get(t["op"]["name"], 0) + 1
    if set(opcount) != {"add_child", "remove_child", "add_namespace", "remove_namespace"}:
        raise MachineryError(f"vacuous model: {opcount}")
    inits = [k for k, s in states.items() if all(len(x) == 0 for x in s["kids"]) and all(len(x) == 0 for x in s["ns"])]
    G.update(graph=graph, states=states)
    info = {"model_transitions_by_action": opcount}
    nP = 0
    if do_paths:
        depth = 4
        tasks = [(ik, depth, ei) for ik in inits for ei in range(len(graph[ik]))]
        res = parallel(w_paths, tasks, chunk=1)
        nP = sum(x[0] for x in res)
        for x in res:
            for key, det, replay in x[1]:
                report(key + ":path", det, replay)
        info["paths_replayed"] = {"depth": depth, "count": nP, "unspecified_divergences": sum(x[2] for x in res)}
    seen = {}
    frontier = []
    for ik in inits:
        w = World.build(states[ik])
        seen[(ik, w.alias_partition())] = ()
        frontier.append((ik, ()))
    applied = 0
    level = 0
    while frontier and len(seen) < max_keys:
        level += 1
        results = [x for chunk in parallel(w_expand, frontier) for x in chunk]
        frontier = []
        for (ik, path, tk, part, v, det) in results:
            applied += 1
            if v == "diverged":
                continue
            if v != "ok":
                op = path[-1][1]
                report(f"{op['name']}:{v}:product", det, {"kind": "path", "init": states[ik], "ops": [e[1] for e in path]})
                continue
            if (tk, part) not in seen:
                seen[(tk, part)] = path
                frontier.append((ik, path))
    info["product_exploration"] = {"state_x_alias_partition_keys": len(seen), "operations_applied": applied, "bfs_levels": level, "complete": not frontier}
    rep.notes.setdefault("explorations", {})[cfg] = info
    rep.sample({"config": cfg, "path": [e[1] for e in max(seen.values(), key=len)]})
    return nP, applied, len(seen)


def move_traces():
    """A child moved from one parent to ANOTHER one that holds the very same map object (siblings below a node that declared the
    prefix after they were attached): with and without a dropped prefix, detached first or merely carrying a parent pointer
    (constructor argument), appended or inserted by position.  TLC judges every step (TraceForest, clause ns)."""
    from harness.world import World
    fields = ("name", "kids", "ns", "content", "tail", "prefix", "attrs", "extras", "store")
    out = []
    for declare_when in ("after-attach", "before-attach"):
        for how in ("attached-dropped-detached", "attached-detached", "parent-argument-only", "attached-own-binding-detached"):
            for index in (-1, 0, 1):
                w = World()
                for nm in ("r", "a", "b", "c", "d"):
                    w.new(nm)
                tr = {"init": w.pi(fields), "events": [], "desc": {"case": "move", "declare": declare_when, "how": how, "index": index}}

                def do(name, args):
                    ok, ret, exc = w.apply(name, args)
                    tr["events"].append({"op": name, "args": args, "ok": ok, "ret": ret if isinstance(ret, int) else 0, "post": w.pi(fields)})
                if declare_when == "before-attach":
                    do("add_namespace", [1, "x", "u"])
                do("add_child", [1, 2, -1])
                do("add_child", [1, 3, -1])
                do("add_child", [3, 5, -1])            # the receiving parent already has a child
                if declare_when == "after-attach":
                    do("add_namespace", [1, "x", "u"])
                if how == "parent-argument-only":
                    w.n(4).parent = w.n(2)             # as Node("c", parent=a) leaves it: a pointer, no attachment
                    tr["events"].append({"op": "resync", "args": [], "ok": True, "ret": 0, "post": w.pi(fields)})
                else:
                    do("add_child", [2, 4, -1])
                    if how == "attached-dropped-detached":
                        do("remove_namespace", [4, "x"])
                    if how == "attached-own-binding-detached":
                        do("add_namespace", [4, "y", "u/"])
                    do("remove_child", [2, 4])
                do("add_child", [3, 4, index])
                out.append(tr)
    # a BRANCH assembled bottom-up (its inner nodes declare and re-declare prefixes of their own) and attached afterwards: while
    # the branch root's map equals the new parent's (both empty, or the same binding), the bindings further down are the branch's
    for rootns in ((), (("x", "u"),)):
        for index in (-1, 0):
            w = World()
            for nm in ("r", "b", "c", "d", "e"):
                w.new(nm)
            tr = {"init": w.pi(fields), "events": [], "desc": {"case": "bottom-up branch", "root_bindings": list(rootns), "index": index}}

            def do(name, args):
                ok, ret, exc = w.apply(name, args)
                tr["events"].append({"op": name, "args": args, "ok": ok, "ret": ret if isinstance(ret, int) else 0, "post": w.pi(fields)})
            for q, u in rootns:
                do("add_namespace", [1, q, u])
                do("add_namespace", [2, q, u])
            do("add_child", [1, 5, -1])
            do("add_child", [3, 4, -1])
            do("add_namespace", [4, "y", "u/"])
            do("add_namespace", [3, "x", "u/" if rootns else "u"])       # re-declares the root's prefix / declares one
            do("add_child", [2, 3, -1])
            do("add_child", [1, 2, index])
            out.append(tr)
    return out


def run(rep, tier, seed):
    def report(key, det, replay):
        rep.violation(f"{PID}:{key}", det[:500], replay)

    if tier == "quick":
        plan = [("MC_Ns3x.cfg", True, 4000)]
    else:
        plan = [("MC_Ns3xy.cfg", True, 200000), ("MC_Ns4x.cfg", False, 60000)]
        r4 = run_tlc("Metapype", cfg=os.path.join(SPEC, "MC_Ns4xy.cfg"), timeout=2400)
        if not r4.ok or r4.invariant_violated or r4.action_prop_violated:
            raise MachineryError("MC_Ns4xy: the specification violates its own properties:\n" + r4.out[-2000:])
        rep.add_tlc(r4, "MC_Ns4xy.cfg (Frame, NsEffect only)")
    nP = applied = nkeys = 0
    plan = [(c, d, k, None) for (c, d, k) in plan] + [("MC_Ns3x.cfg", True, 4000, "x"),       # once more with every node's own prefix field set to x
                                                      ("MC_Ns3xy.cfg" if tier == "thorough" else "MC_Ns3x.cfg", True, 4000, "ids")]     # and with all nodes constructed with ONE id
    plan.append(("MC_Ns3x.cfg", True, 4000, "alias"))       # and with the model's prefixes realised by XML names that start with a non-ASCII letter
    from harness.world import World as _W
    for cfg, do_paths, cap, node_prefix in plan:
        _W.prefix_alias = {"x": "\u00e9co", "y": "\u0434\u0430\u043d\u043d\u044b\u0435"} if node_prefix == "alias" else {}
        if node_prefix == "alias":
            node_prefix = None
        G["node_prefix"] = node_prefix if node_prefix != "ids" else None
        G["same_ids"] = node_prefix == "ids"
        a1, a2, a3 = explore(rep, cfg, do_paths, cap, lambda key, det, replay: report(key + (":nodes-carry-prefix" if G.get("node_prefix") else "") + (":nodes-share-an-id" if G.get("same_ids") else ""), det, replay))
        nP += a1
        applied += a2
        nkeys += a3

    G["node_prefix"] = None
    G["same_ids"] = False
    _W.prefix_alias = {}
    # (c) code -> spec
    ntr, nst = (80, 120) if tier == "quick" else (800, 250)
    rnd = random.Random(seed)
    jobs = [(seed * 7919 + i, rnd.randint(6, 10), nst) for i in range(ntr)]
    traces = [t for chunk in parallel(w_histories, jobs) for t in chunk]
    traces += move_traces()
    rejects, _ = judge_traces(traces, PID, label="histories")
    nev = sum(len(t["events"]) for t in traces)
    rep.cov["traces_validated_against_impl"] += len(traces)
    rep.notes["history_events_judged_by_tlc"] = nev
    for rj in rejects:
        tr = traces[rj["trace"] - 1]
        e = tr["events"][rj["event"] - 1]
        if "HARNESS-precondition" in rj["clauses"]:
            raise MachineryError(f"history generator violated a usage constraint: {e['op']} {e['args']}")
        pre = tr["init"] if rj["event"] == 1 else tr["events"][rj["event"] - 2]["post"]
        for cl in rj["clauses"]:
            report(f"{e['op']}:{cl}:history", f"TLC rejected event {rj['event']} of history {rj['trace']}: {rj['clauses']}",
                   {"kind": "history", "init": tr["init"], "events": tr["events"][:rj["event"]], "pre": pre})
    from harness import suite
    suite.run_for(rep, "C13")
    rep.cov["evaluations"] = nP + applied + nev
    rep.cov["distinct_nontrivial"] = nkeys
    rep.cov["rule"] = "distinct = reachable (abstract namespace state, dict-alias partition) pairs of the implementation, each expanded with every operation TLC's graph allows"
    rep.assumptions += ["namespace maps hold prefixed bindings only; operations are attach, detach, declare, re-declare, remove",
                        "what attach does to maps strictly below the attached child is modelled for generation but not judged"]
