"""./check SELFTEST - binding demonstration: a trace specification that accepts everything proves
nothing.  For every trace family a GOOD recorded execution is corrupted in one logged field and
TLC must reject it naming the expected clause; a trace with an event removed from the batch file
must fail the all-consumed post-condition path (detected as a different event count).
Exit 0: every corruption was rejected as expected; exit 2 otherwise (machinery failure)."""
import copy
import json
import random

from harness.common import MachineryError, judge_traces
from harness.world import World, Node

ALLF = ("name", "kids", "ns", "content", "tail", "prefix", "attrs", "extras", "store")


def forest_trace():
    w = World()
    for nm in ("a", "b", "a", "b"):
        w.new(nm)
    tr = {"init": w.pi(ALLF), "events": []}

    def do(op, args):
        ok, ret, exc = w.apply(op, args)
        tr["events"].append({"op": op, "args": args, "ok": ok, "ret": ret if isinstance(ret, int) else 0, "post": w.pi(ALLF)})
    do("add_child", [1, 2, -1])
    do("add_child", [1, 3, -1])
    do("add_child", [1, 4, 0])
    do("add_attribute", [2, "k", 1])
    do("add_namespace", [1, "x", "u"])
    do("shift", [1, 3, "L", False])
    do("remove_child", [4, 1])          # fails: 1 is not a child of 4
    do("copy", [1])
    do("delete", [2, False])
    return tr


def run(rep, tier, seed):
    results = []

    def expect(label, traces, clause, **kw):
        rejects, r = judge_traces(traces, "SELFTEST", label=label, **kw)
        got = sorted({c for rj in rejects for c in rj["clauses"]})
        ok = clause in got if clause else not got
        results.append((label, clause, got, ok))
        rep.cov["states"] += r.distinct or 0
        rep.cov["transitions"] += r.generated or 0

    good = forest_trace()
    expect("forest-good", [good], None)
    t = copy.deepcopy(good)
    k = t["events"][2]["post"]["kids"][0]
    k[0], k[1] = k[1], k[0]
    expect("forest-swap-two-children", [t], "kids")
    t = copy.deepcopy(good)
    t["events"][3]["post"]["attrs"][1][0][1] = 2
    expect("forest-change-attribute-atom", [t], "attrs")
    t = copy.deepcopy(good)
    t["events"][7]["post"]["store"].pop()
    expect("forest-drop-registry-id", [t], "store")
    t = copy.deepcopy(good)
    t["events"][6]["ok"] = True
    expect("forest-flip-outcome", [t], "did-not-raise")
    t = copy.deepcopy(good)
    t["events"][5]["ret"] = 2
    expect("forest-wrong-shift-index", [t], "ret")
    t = copy.deepcopy(good)
    t["events"][4]["post"]["ns"][3] = []
    expect("forest-binding-missing-in-subtree", [t], "ns")
    # a removed event: the following event is judged from the wrong predecessor
    t = copy.deepcopy(good)
    del t["events"][1]
    rejects, _ = judge_traces([t], "SELFTEST", label="forest-event-removed")
    results.append(("forest-event-removed", "(any)", sorted({c for rj in rejects for c in rj["clauses"]}), bool(rejects)))

    # validation traces
    from harness import valtrace, tables
    tb = tables.get_tables(rep)
    root = valtrace.fixture_root()
    rnd = random.Random(1)
    for _ in range(4):
        valtrace.mutate(root, rnd, tb, ["add-unknown-child", "corrupt-attr", "add-attr", "set-content-on-empty"])
    ev = valtrace.observe_tree(root)
    Node.store.clear()
    expect("validate-good", [ev], None, module="TraceValidate", cfg="TraceValidate.cfg")
    if ev["coll"]:
        t = copy.deepcopy(ev)
        t["coll"].pop()
        expect("validate-drop-last-tree-error", [t], "tree-errors-not-concatenation-of-node-errors", module="TraceValidate", cfg="TraceValidate.cfg")
        t = copy.deepcopy(ev)
        t["craised"] = {"kind": "other", "exc": "KeyError"}
        expect("validate-collecting-raised", [t], "tree:collecting-mode-raised", module="TraceValidate", cfg="TraceValidate.cfg")
        t = copy.deepcopy(ev)
        t["rerun"] = False
        expect("validate-second-run-differs", [t], "tree-errors-of-a-second-run-into-the-same-list-differ", module="TraceValidate", cfg="TraceValidate.cfg")
    else:
        results.append(("validate-corruptions", "n/a", ["fixture mutations produced no error"], False))

    # text traces
    from harness.xmlobs import codes
    expect("text-good", [{"op": "normalize", "in": codes(" a  b "), "out": codes("a b"), "out2": codes("a b")}], None, module="TraceText", cfg="TraceValidate.cfg")
    expect("text-nbsp-left", [{"op": "normalize", "in": codes("a\xa0b"), "out": codes("a\xa0b"), "out2": codes("a\xa0b")}], "nbsp-in-result", module="TraceText", cfg="TraceValidate.cfg")
    expect("text-word-lost", [{"op": "normalize", "in": codes("a b c"), "out": codes("a c"), "out2": codes("a c")}], "words-changed", module="TraceText", cfg="TraceValidate.cfg")

    bad = [x for x in results if not x[3]]
    rep.notes["selftest"] = [{"case": a, "expected_clause": b, "tlc_clauses": c, "as_expected": d} for a, b, c, d in results]
    for a, b, c, d in results:
        print(f"  {'ok  ' if d else 'FAIL'} {a}: expected {b}; TLC said {c}")
    rep.sample({"case": results[1][0], "tlc_clauses": results[1][2]})
    rep.cov["evaluations"] = len(results)
    rep.cov["distinct_nontrivial"] = len(results)
    rep.cov["traces_validated_against_impl"] = len(results)
    if bad:
        raise MachineryError(f"binding self-test failed: {bad}")
