"""TLC-derived tables shared by the tree-level checks, and the rule-guided generator of valid
EML trees that is driven by them (not by a hand-written schema walker):

  children : seeded walk on the TLC-produced automaton of the element's rule (MC_Dfa) from the
             start state to a strict-accepting state; at the depth budget the C10 witness word
  content  : drawn from a class whose verdict in TLC's decision table (MC_Content) is ACCEPT
  attrs    : required ones, plus optional / enumerated ones with listed values

The TLC outputs are cached under .work/cache keyed by the hash of the generated RuleTable and
of the spec modules, so they are recomputed whenever the working tree's tables change.
"""
import hashlib
import os
import pickle
import random

from harness import common
from harness.common import MachineryError, run_tlc, SPEC, WORK
from harness.c09 import load_log_all
from harness import gen_tables, c01, c02


class Tables:
    pass


def get_tables(rep=None):
    d = os.path.join(WORK, "cache")
    os.makedirs(d, exist_ok=True)
    tmp = os.path.join(d, f"gen-{os.getpid()}")
    os.makedirs(tmp, exist_ok=True)
    rules, node_map, implemented, loaded = gen_tables.write_rule_table(tmp)
    h = hashlib.sha1()
    h.update(open(os.path.join(tmp, "RuleTable.tla"), "rb").read())
    for m in ("Regex", "RuleJson", "ContentClass", "MC_Dfa", "MC_Content", "MC_Table"):
        h.update(open(os.path.join(SPEC, m + ".tla"), "rb").read())
    key = h.hexdigest()[:16]
    pk = os.path.join(d, key + ".pkl")
    t = Tables()
    if os.path.exists(pk):
        t.__dict__.update(pickle.load(open(pk, "rb")))
        t.cached = True
    else:
        runs = []
        out = os.path.join(tmp, "o.txt")
        r = run_tlc("MC_Dfa", cfg=os.path.join(SPEC, "MC_Dfa.cfg"), stdout_path=out, lib=tmp)
        if not r.ok:
            raise MachineryError("MC_Dfa failed:\n" + r.out[-1500:])
        runs.append(("MC_Dfa.cfg", r.distinct, r.generated))
        dfas = c01.build_dfas(load_log_all(out))
        r = run_tlc("MC_Content", cfg=os.path.join(SPEC, "MC_Content.cfg"), stdout_path=out, lib=tmp)
        if not r.ok:
            raise MachineryError("MC_Content failed:\n" + r.out[-1500:])
        runs.append(("MC_Content.cfg", r.distinct, r.generated))
        C = load_log_all(out)["C"]
        r = run_tlc("MC_Table", cfg=os.path.join(SPEC, "MC_Table.cfg"), stdout_path=out, lib=tmp, workers=1)
        if not r.ok:
            raise MachineryError("MC_Table failed:\n" + r.out[-1500:])
        runs.append(("MC_Table.cfg", r.distinct, r.generated))
        lg = load_log_all(out)
        W = {w["elem"]: w for w in lg.get("W", [])}
        V = lg.get("V", [])
        for dd in dfas.values():
            dd.delta = dict(dd.delta)
        data = dict(rules=rules, node_map=node_map, dfas=dfas, C=C, W=W, V=V, runs=runs)
        pickle.dump(data, open(pk, "wb"))
        t.__dict__.update(data)
        t.cached = False
    import shutil
    shutil.rmtree(tmp, ignore_errors=True)
    if rep is not None:
        for (cfg, distinct, generated) in t.runs:
            rep.cov["states"] += distinct or 0
            rep.cov["transitions"] += generated or 0
            rep.notes.setdefault("tlc_runs", []).append({"config": cfg + " (shared tables" + (", cached" if t.cached else "") + ")",
                                                         "distinct": distinct, "generated": generated})
    # accepting content classes per (rule, hasKids)
    t.accept = {}
    for c in t.C:
        if c["verdict"] == "ACCEPT" and c["enum"] in ("none", "in") and c["cls"] != "SURROGATE":
            t.accept.setdefault((c["unit"], c["hasKids"]), []).append((c["cls"], c["bucket"], c["enum"]))
    t.elem_of_rule = {}
    for el, ru in t.node_map.items():
        t.elem_of_rule.setdefault(ru, []).append(el)
    return t


class TreeGen:
    """Seeded generator of trees that are valid by construction with respect to TLC's tables."""

    def __init__(self, t, seed, max_depth=6, breadth=6, text=None):
        self.t = t
        self.rnd = random.Random(seed)
        self.max_depth = max_depth
        self.breadth = breadth
        self.text = text            # optional callable rnd -> str for free text content
        self._to_acc = {}

    def _completion(self, d):
        if d.unit not in self._to_acc:
            known = set(self.t.node_map)
            to_acc = {s: () for s in d.states if d.out[s] == "ACCEPT"}
            changed = True
            while changed:
                changed = False
                for s in d.states:
                    if s in to_acc:
                        continue
                    best = None
                    for a in d.sigma:
                        if a not in known:
                            continue
                        tt = d.delta[s][a]
                        if tt in to_acc and (best is None or len(to_acc[tt]) + 1 < len(best)):
                            best = (a,) + to_acc[tt]
                    if best is not None:
                        to_acc[s] = best
                        changed = True
            self._to_acc[d.unit] = to_acc
        return self._to_acc[d.unit]

    def child_word(self, element, depth):
        rnd = self.rnd
        if element == "metadata":
            return []
        unit = self.t.node_map[element]
        d = self.t.dfas[unit]
        if depth >= self.max_depth:
            return list(self.t.W[element]["word"])
        to_acc = self._completion(d)
        known = set(self.t.node_map)
        s, w = d.init, []
        for _ in range(rnd.randint(0, self.breadth)):
            opts = [a for a in d.sigma if a in known and d.delta[s][a] in to_acc]
            if not opts:
                break
            a = rnd.choice(opts)
            w.append(a)
            s = d.delta[s][a]
        return w + list(to_acc[s])

    def content_for(self, unit, has_kids):
        rnd = self.rnd
        opts = self.t.accept.get((unit, has_kids)) or self.t.accept.get((unit, False)) or [("NONE", "", "none")]
        cls, bucket, enum = rnd.choice(opts)
        if enum == "in":
            vals = self.t.rules[unit][2]["content_enum"]
            vals = [v for v in vals if (v == "") == (cls == "EMPTY")]
            return rnd.choice(vals) if vals else rnd.choice(self.t.rules[unit][2]["content_enum"])
        if "content_enum" in self.t.rules[unit][2]:
            return rnd.choice(self.t.rules[unit][2]["content_enum"])
        if cls in ("TEXT", "UNICODE") and self.text is not None:
            return self.text(rnd)
        return c02.gen(cls, bucket, rnd)

    def attrs_for(self, unit):
        rnd = self.rnd
        out = {}
        for a, v in self.t.rules[unit][0].items():
            req = bool(v and v[0] is True)
            if req or rnd.random() < 0.3:
                out[a] = rnd.choice(v[1:]) if len(v) > 1 else ("v" + str(rnd.randint(0, 99)))
        return out

    def gen(self, element, depth=0):
        from metapype.model.node import Node
        unit = self.t.node_map[element]
        word = self.child_word(element, depth)
        n = Node(element)
        for k, v in self.attrs_for(unit).items():
            n.add_attribute(k, v)
        n.content = self.content_for(unit, len(word) > 0)
        for cname in word:
            n.add_child(self.gen(cname, depth + 1))
        return n

    def gen_valid(self, element, tries=5):
        """A generated tree, asserted valid with validate.tree (a base that does not validate is a
        C10/C01 matter: reported by the caller, never silently dropped)."""
        from metapype.eml import validate
        t = self.gen(element)
        errs = []
        try:
            validate.tree(t, errs)
        except Exception as e:  # noqa: BLE001
            return t, [("raised", repr(e))]
        return t, [(e[0].name, e[2].name) for e in errs]


def walk(n):
    yield n
    for c in n.children:
        yield from walk(c)
