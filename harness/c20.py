"""C20 - whitespace normalisation is idempotent and structure-preserving.

design level : MC_Text - the spec's own normaliser satisfies NormOK and is idempotent on every
               string of length <= 6 over {SP, TAB, LF, NBSP, a, b}.
code -> spec : normalize(text) on every such string (and seeded longer ones) and normalize(xml,
               is_xml=True) on seeded documents (mixed content, protected elements at several
               depths, plain and xsi-prefixed attributes, SP/TAB/LF/NBSP everywhere); input and
               output documents are parsed by an independent parser and judged by TraceText.tla.
"""
import itertools
import os
import random

from harness.common import MachineryError, run_tlc, SPEC, workdir, parallel, judge_traces
from harness.world import Node  # noqa: F401 (binds the working tree)
from harness import xmlobs
from harness.xmlobs import codes

PID = "C20"
ALPH = [" ", "\t", "\n", "\xa0", "a", "b"]
# letters that Unicode normalisation forms, case mapping or width folding would change: a normaliser of SPACES keeps them
# text whose CHARACTERS are markup characters (escaped in the source document): it stays text
MARKUPISH = [' encoding="UTF-8"', "version='1.0'", "<?xml?>", "AT&T", "1<2", "x>y", "&amp;", "<b>x</b>", "&lt;i&gt;", "&#38;", "<!--c-->", "<?pi?>", "&", "<", "\"q'"]
ODD = ["\u00b5g", "km\u00b2", "\ufb01eld", "\uff1cb\uff1e", "\uff06", "\uff02", "e\u0301", "\u212b", "\u2460", "\uff46", "\u0130", "\u00df", "\u01c6", "\u2026", "\u2122", "\u1e9b\u0323"]
# legal XML characters that some line-oriented string functions (str.splitlines) treat as line ends: to XML they are ordinary
# characters of a word
LINEISH = ["a\u2028b", "\u2028", "\u2029x", "x\x85y", "\x85", "one\u2028two three"]
PROTECTED = ["markup", "literalLayout", "objectName", "attributeName", "para"]
PLAIN = ["title", "abstract", "section", "value", "emphasis", "dataset", "entityName", "x", "html", "HTML", "br", "meta", "p", "head", "script"]
# (html / br / meta ...: names an XSLT processor treats specially when it guesses the output method from the root element)


def w_text(strings):
    from metapype.model.normalize import normalize
    evs = []
    for s in strings:
        try:
            out = normalize(s)
            out2 = normalize(out)
            evs.append({"op": "normalize", "in": codes(s), "out": codes(out), "out2": codes(out2), "raised": ""})
        except Exception as e:  # noqa: BLE001
            evs.append({"op": "normalize", "in": codes(s), "out": [160], "out2": [], "raised": type(e).__name__})
    return evs


def rws(rnd, allow_empty=True):
    n = rnd.randint(0 if allow_empty else 1, 4)
    return "".join(rnd.choice([" ", " ", "\t", "\n", "\xa0"]) for _ in range(n))


def rtext(rnd):
    parts = [rws(rnd)]
    for _ in range(rnd.randint(0, 4)):
        parts.append("".join(rnd.choice("abcXYZ09.,") for _ in range(rnd.randint(1, 6))) if rnd.random() < 0.8 else rnd.choice(ODD + LINEISH + MARKUPISH))
        parts.append(rws(rnd, allow_empty=False))
    if rnd.random() < 0.5 and len(parts) > 1:
        parts[-1] = rws(rnd)
    return "".join(parts)


def esc(s, attr=False):
    s = s.replace("&", "&amp;").replace("<", "&lt;").replace(">", "&gt;")
    if attr:
        s = s.replace('"', "&quot;").replace("\t", "&#9;").replace("\n", "&#10;")
    return s


ENTITIES = {"site": "Harvard \t Forest", "nb": "a&#160;b", "sp": "  ", "w": "word"}


def prolog(rnd):
    """Document-level furniture of a well-formed document: XML declaration, an internal DTD subset declaring general
    entities (used in text and attribute values below), comments and processing instructions around the root."""
    s = ""
    if rnd.random() < 0.3:
        s += rnd.choice(['<?xml version="1.0" encoding="UTF-8"?>\n', '<?xml version="1.0"?>', '<?xml version="1.0"?>\n', "<?xml version='1.0' standalone='yes'?>"])
    ents = {}
    if rnd.random() < 0.35:
        ents = {k: ENTITIES[k] for k in rnd.sample(sorted(ENTITIES), rnd.randint(1, 3))}
        s += "<!DOCTYPE doc [" + "".join(f' <!ENTITY {k} "{v}">' for k, v in ents.items()) + " ]>\n"
    if rnd.random() < 0.2:
        s += "<!-- a comment -->\n"
    if rnd.random() < 0.1:
        s += "<?pi some data?>\n"
    return s, ents


def with_refs(text, rnd, ents):
    """escaped text with, now and then, a reference to a declared entity or a character reference"""
    out = esc(text)
    if ents and rnd.random() < 0.5:
        k = rnd.choice(sorted(ents))
        pos = rnd.randint(0, len(text))
        out = esc(text[:pos]) + f"&{k};" + esc(text[pos:])
    if rnd.random() < 0.1:
        out += rnd.choice(["&#160;", "&#x20;", "&#9;", "&#xA0;x"])
    return out


def rdoc(rnd, depth=0, inside_protected=False, ents=None):
    if depth == 0 and ents is None:
        pro, ents = prolog(rnd)
        return pro + rdoc(rnd, 0, inside_protected, ents) + ("\n<!-- trailing -->" if rnd.random() < 0.1 else "")
    name = rnd.choice(PROTECTED if rnd.random() < 0.3 else PLAIN)
    attrs = []
    if depth == 0:
        attrs.append(("xmlns:xsi", "http://www.w3.org/2001/XMLSchema-instance"))
    used = set()
    for _ in range(rnd.choice([0, 0, 1, 2, 3])):
        an = rnd.choice(["id", "scope", "system", "xsi:type", "xsi:schemaLocation", "lang", "n", "encoding", "version", "standalone", "xml"])    # (names that also occur in an XML declaration)
        if an in used:
            continue
        used.add(an)
        attrs.append((an, rtext(rnd)))
    def aval(v):
        if ents and rnd.random() < 0.3:
            return esc(v, True) + "&" + rnd.choice(sorted(ents)) + ";"
        return esc(v, True)
    s = "<" + name + "".join(f' {k}="{aval(v)}"' if not k.startswith("xmlns") else f' {k}="{esc(v, True)}"' for k, v in attrs) + ">"
    nk = rnd.choice([0, 0, 1, 2, 3]) if depth < 4 else 0
    for i in range(nk + 1):
        if rnd.random() < 0.7:
            t = rtext(rnd)
            if rnd.random() < 0.1 and "]]>" not in t:
                s += "<![CDATA[" + t + "]]>"
            else:
                s += with_refs(t, rnd, ents)
        if i < nk:
            s += rdoc(rnd, depth + 1, ents=ents)
    return s + "</" + name + ">"


# hand-shaped documents around the XML declaration: attributes and text that LOOK like parts of a declaration
SPECIAL_DOCS = [
    '<?xml version="1.0"?><doc encoding="UTF-8" id="a  b"> x  y </doc>',
    '<?xml version="1.0"?><doc><para>use  encoding="latin-1" here</para><title> t  t </title></doc>',
    "<?xml version='1.0'?><doc version=\"1.0\" standalone=\"no\" encoding='x'> a </doc>",
    '<?xml version="1.0" encoding="UTF-8"?><doc encoding="ISO-8859-1"><title>caf\u00e9  au  lait</title></doc>',
    '<?xml version="1.0" encoding="utf-8" standalone="yes"?>\n<doc><markup> encoding="a"  encoding="b"</markup></doc>',
    '<doc encoding="UTF-8"><?xml-stylesheet href="a.xsl"?><title xml="1"> ?xml  version </title></doc>',
    '<?xml version="1.0"?>\n<!-- encoding="c" --><doc a=" encoding=&quot;q&quot; "> x </doc>',
    '<doc a="p\u2028q"><title>one\u2028two  three\u2029</title><para>keep\u2028this  as\x85it is</para><x>\x85 y\u2028</x>tail\u2028 t</doc>',
    '<doc><literalLayout>line\u2028sep  and\r\nCRLF</literalLayout><title>a\r\nb\rc</title></doc>',
]


def w_xml(seeds):
    from metapype.model.normalize import normalize
    evs = []
    for seed in seeds:
        rnd = random.Random(seed)
        doc = SPECIAL_DOCS[-seed - 1] if seed < 0 else rdoc(rnd)
        ev = {"op": "normalize_xml", "wf": True, "din": xmlobs.parse_raw(doc), "dout": 0, "t1": 1, "t2": 1, "raised": "", "seed": seed}
        try:
            out1 = normalize(doc, is_xml=True)
            out2 = normalize(out1, is_xml=True)
            ev["t2"] = 1 if out1 == out2 else 2
            try:
                ev["dout"] = xmlobs.parse_raw(out1)
            except Exception:  # noqa: BLE001
                ev["wf"] = False
        except Exception as e:  # noqa: BLE001
            ev["wf"] = False
            ev["raised"] = type(e).__name__
        evs.append(ev)
    return evs


def run(rep, tier, seed):
    r = run_tlc("MC_Text", cfg=os.path.join(SPEC, "MC_Text.cfg"), timeout=900)
    if r.invariant_violated or not r.ok:
        raise MachineryError("SPEC ERROR: Text.tla violates its own properties (MC_Text):\n" + r.out[-2000:])
    rep.add_tlc(r, "MC_Text.cfg (NormOK(s, Normalize(s)), idempotence, Clean idempotent; all strings <= 6)")
    maxlen = 5 if tier == "quick" else 6
    strings = ["".join(t) for L in range(maxlen + 1) for t in itertools.product(ALPH, repeat=L)]
    rnd = random.Random(seed)
    for _ in range(2000 if tier == "quick" else 50000):
        strings.append("".join(rnd.choice(ALPH + ["c", "\u00e9", "\u6f22"] + (ODD if _ % 3 == 0 else [])) for _k in range(rnd.randint(7, 40))))
    evs = [e for chunk in parallel(w_text, strings) for e in chunk]
    nx = 300 if tier == "quick" else 8000
    xevs = [e for chunk in parallel(w_xml, [seed * 1299709 + i for i in range(nx)] + [-(k + 1) for k in range(len(SPECIAL_DOCS))]) for e in chunk]
    allv = evs + xevs
    strip = lambda e: {k: v for k, v in e.items() if k not in ("seed",)}  # noqa: E731
    rejects, rr = judge_traces([strip(e) for e in allv], PID, module="TraceText", cfg="TraceValidate.cfg", label="norm", timeout=3000)
    rep.cov["states"] += rr.distinct or 0
    rep.cov["transitions"] += rr.generated or 0
    rep.cov["traces_validated_against_impl"] = len(allv)
    for e in allv:
        if e["raised"]:
            rep.violation(f"{PID}:{e['op']}:raised:{e['raised']}", f"normalize raised {e['raised']}", {"kind": e["op"], "in": e.get("in"), "seed": e.get("seed")})
    for rj in rejects:
        e = allv[rj["event"] - 1]
        if e["raised"]:
            continue
        for cl in rj["clauses"]:
            if e["op"] == "normalize":
                rep.violation(f"{PID}:text:{cl}", f"normalize({xmlobs.uncodes(e['in'])!r}) = {xmlobs.uncodes(e['out'])!r}: {cl}", {"kind": "text", "in": e["in"], "out": e["out"]})
            else:
                rep.violation(f"{PID}:xml:{cl}", f"normalize(xml) seed {e['seed']}: {cl}", {"kind": "xml", "seed": e["seed"]})
    prot = sum(1 for e in xevs if any(p in str(e["din"]) for p in PROTECTED))
    rep.notes.update(text_strings=len(evs), xml_documents=len(xevs), xml_documents_with_protected_elements=prot)
    rep.sample({"in": strings[777], "out": xmlobs.uncodes(evs[777]["out"])})
    rep.cov["evaluations"] = len(allv)
    rep.cov["distinct_nontrivial"] = len(allv)
    rep.cov["rule"] = f"all strings of length <= {maxlen} over SP/TAB/LF/NBSP/a/b (exhaustive) plus seeded longer strings and seeded XML documents"
    rep.cov["exhaustive"] = False
    rep.assumptions += ["Unicode whitespace other than SP/TAB/LF/CR/NBSP is outside the quantifier",
                        "well-formedness of the emitted document is observed with an independent parser (expat)"]
