"""C02 - content validation decides exactly as the rule's content constraints require.

TLC (MC_Content) evaluates the decision table of ContentClass.tla for every rule x abstract
content class x {has children} x {enumeration none/listed/unlisted}.  Each combination is
concretised by constructive generators (strings that belong to the class by construction:
canonical forms printed from a value, malformed forms built from clear non-members, never by
parsing) and run through validate.node in both modes on a node whose attributes and children
are valid.
"""
import os
import random

from harness import common
from harness.common import MachineryError, run_tlc, SPEC, workdir, parallel
from harness.c09 import load_log_all
from harness import c01

PID = "C02"
G = {}

LETTERS = "abcdefghijklmnopqrstuvwxyzABCDEFGHIJKLMNOPQRSTUVWXYZ"


def _word(rnd, alphabet=LETTERS):
    return "".join(rnd.choice(alphabet) for _ in range(rnd.randint(1, 9)))


def _int_in(rnd, lo, hi):
    return str(rnd.randint(lo, hi))


INT_BUCKET = {
    "lt-180": lambda r: _int_in(r, -10 ** r.randint(3, 12), -181), "eq-180": lambda r: "-180",
    "in-180-90": lambda r: _int_in(r, -179, -91), "eq-90": lambda r: "-90", "in-90-0": lambda r: _int_in(r, -89, -1),
    "zero": lambda r: "0", "in0-90": lambda r: _int_in(r, 1, 89), "eq90": lambda r: "90",
    "in90-180": lambda r: _int_in(r, 91, 179), "eq180": lambda r: "180",
    "gt180": lambda r: r.choice([_int_in(r, 181, 999), _int_in(r, 10000, 10 ** r.randint(5, 15))]),
}


def _dec(rnd, whole_lo, whole_hi, neg, exact=None):
    """canonical decimal with 1..6 fractional digits, |value| in (whole_lo, whole_hi) strictly"""
    if exact is not None:
        return ("-" if neg else "") + exact + "." + "0" * rnd.randint(1, 4)
    while True:
        w = rnd.randint(whole_lo, whole_hi - 1)
        nd = rnd.randint(1, 6)
        frac = rnd.randint(0, 10 ** nd - 1)
        if w == whole_lo and frac == 0:
            continue
        return ("-" if neg else "") + f"{w}.{frac:0{nd}d}"


DEC_BUCKET = {
    "lt-180": lambda r: r.choice(["-180.000001", "-180.5", _dec(r, 180, 10 ** r.randint(3, 9), True)]),
    "eq-180": lambda r: _dec(r, 0, 0, True, "180"),
    "in-180-90": lambda r: r.choice(["-179.999999", "-90.000001", _dec(r, 90, 180, True)]),
    "eq-90": lambda r: _dec(r, 0, 0, True, "90"),
    "in-90-0": lambda r: r.choice(["-89.999999", "-0.000001", _dec(r, 0, 90, True)]),
    "negzero": lambda r: _dec(r, 0, 0, True, "0"),
    "zero": lambda r: _dec(r, 0, 0, False, "0"),
    "in0-90": lambda r: r.choice(["0.000001", "89.999999", _dec(r, 0, 90, False)]),
    "eq90": lambda r: _dec(r, 0, 0, False, "90"),
    "in90-180": lambda r: r.choice(["90.000001", "179.999999", _dec(r, 90, 180, False)]),
    "eq180": lambda r: _dec(r, 0, 0, False, "180"),
    "gt180": lambda r: r.choice(["180.000001", "180.5", _dec(r, 180, 10 ** r.randint(3, 9), False)]),
}


def _time(rnd):
    s = f"{rnd.randint(0, 23):02d}:{rnd.randint(0, 59):02d}:{rnd.randint(0, 59):02d}"
    k = rnd.choice([0, 0, 3, 6])
    if k:
        s += "." + "".join(rnd.choice("0123456789") for _ in range(k))
    return s


def _date(rnd):
    import calendar
    y = rnd.randint(1000, 2999)
    m = rnd.randint(1, 12)
    d = rnd.randint(1, calendar.monthrange(y, m)[1])
    return f"{y:04d}-{m:02d}-{d:02d}"


def _host(rnd):
    return ".".join(_word(rnd, "abcdefghijklmnopqrstuvwxyz") for _ in range(rnd.randint(2, 3)))


def _uri(rnd):
    s = rnd.choice(["http", "https", "ftp"]) + "://" + _host(rnd)
    if rnd.random() < 0.3:
        s += ":" + str(rnd.randint(1, 65535))
    for _ in range(rnd.randint(0, 3)):
        s += "/" + _word(rnd, "abcdefghijklmnopqrstuvwxyz0123456789-._~")
    if rnd.random() < 0.3:
        s += "?" + _word(rnd, "abcdefghijklmnopqrstuvwxyz") + "=" + _word(rnd, "abcdefghijklmnopqrstuvwxyz0123456789")
    return s


def _uri_full(rnd):
    """http/https/ftp URIs with a host that use the whole generic syntax of RFC 3986 (nothing lenient about them)"""
    un = "abcdefghijklmnopqrstuvwxyz0123456789-._~"
    s = rnd.choice(["http", "https", "ftp"]) + "://"
    k = rnd.randint(0, 3)
    if k == 1:
        s += _word(rnd, un) + "@"
    elif k == 2:
        s += _word(rnd, un) + ":" + _word(rnd, un + "!$&'()*+,;=") + "@"
    elif k == 3:
        s += _word(rnd, un) + ":@"
    s += rnd.choice([_host(rnd), _host(rnd), "192.0.2.%d" % rnd.randint(0, 255), "[2001:db8::%x]" % rnd.randint(1, 65535), "[::1]"])
    if rnd.random() < 0.5:
        s += ":" + str(rnd.randint(1, 65535))
    for _ in range(rnd.randint(0, 3)):
        s += "/" + rnd.choice([_word(rnd, un), "%41%c3%a9", "a;b=c,d", "~u", "x%20y", "(z)", "p:q@r"])
    if rnd.random() < 0.5:
        s += "?" + _word(rnd) + "=" + rnd.choice(["1", "a%26b", "x/y?z", ""]) + rnd.choice(["", "&k=v"])
    if rnd.random() < 0.5:
        s += "#" + rnd.choice(["frag", "a/b?c", "", "%23"])
    return s


GEN = {
    "NONE": lambda r: None,
    "EMPTY": lambda r: "",
    "BLANK": lambda r: " " * r.randint(1, 5),
    "TEXT": lambda r: "zq" + " ".join(_word(r) for _ in range(r.randint(1, 4))),
    "UNICODE": lambda r: "zq" + "".join(r.choice("αβγδжзийलोग中文日本語éüß") for _ in range(r.randint(1, 8))),
    "METATEXT": lambda r: r.choice(["{read}", "{", "}", "{}", "{0}", "{0.x}", "{!r}", "read}", "{{", "%s", "%(name)s", "%", "100%", "\\", "\\N", "{node.content}", "$x", "${x}",
                                    "{" + _word(r) + "}", "%" + _word(r), _word(r) + "}" , "{:>" + str(r.randint(1, 9)) + "}"]),
    "SENTINEL": lambda r: r.choice(["None", "null", "NULL", "Null", "undefined", "NaT", "N/A", "n/a", "True", "False", "true", "false", "nil", "<NA>", "NoneType", "nothing", "empty"]),
    "SURROGATE": lambda r: "zq" + r.choice(["\ud800", "\udfff", "a\udc00b"]),
    "INT4": lambda r: _int_in(r, 1000, 9999),
    "SCI": lambda r: r.choice(["1e2", "1E2", "1.5e2", "1.25E2", "1.79e2", "0.95e2", f"1.{r.randint(0, 7)}{r.randint(0, 9)}e2"]),
    "NAN": lambda r: r.choice(["nan", "NaN", "NAN"]),
    "PINF": lambda r: r.choice(["inf", "Inf", "INF", "Infinity", "infinity"]),
    "NINF": lambda r: r.choice(["-inf", "-Inf", "-Infinity", "-infinity"]),
    "OVERFLOW": lambda r: r.choice(["1e999", "9.9e400", f"{r.randint(1, 9)}e{r.randint(400, 9999)}", "1e1000000000000000000", "2.5E+1000000000000000000", "9e99999999999999999999"]),
    "UNDERFLOW": lambda r: r.choice(["1e-999", "2.5e-400", f"{r.randint(1, 9)}e-{r.randint(400, 9999)}", "1e-1000000000000000000", "0." + "0" * 400 + "1"]),
    "DIGITLIKE": lambda r: r.choice(["\u2212120.5", "\u22121", "2.5e\u22123", "\u22120.0", "\u201312", "1\u00b75", "1,5", "1 000", "1'000", "1\u202f000", "\uff0d5", "5\u2212","\u00b2", "10\u00b3", "\u2460", "\u2460\u2461\u2462\u2463", "202\u00b2", "\u00bd", "1\u00bd", "\u4e94", "\u2167", "\u2488", "\u2776", "\u2080", "1\u2070", "\u3007",
                                      "\u00b9\u00b2:\u00b3\u2070:\u2074\u2075", "\u2460\u2461\u2462\u2463-\u2460\u2461-\u2460\u2461"]),
    "TIME": _time,
    "TIME_ZONED": lambda r: _time(r) + r.choice(["Z", "Z", "+00:00", "-00:00", f"+{r.randint(0, 12):02d}:{r.choice([0, 30, 45]):02d}", f"-{r.randint(0, 12):02d}:{r.choice([0, 30]):02d}"]),
    "BADTIME": lambda r: r.choice(["25:00:00", "12:60:00", "12:30:61", "99:99:99", f"{r.randint(24, 99)}:{r.randint(0, 59):02d}:{r.randint(0, 59):02d}",
                                   f"{r.randint(0, 23):02d}:{r.randint(60, 99)}:{r.randint(0, 59):02d}"]),
    "DATE": _date,
    "BADDATE": lambda r: r.choice(["2021-02-30", "2020-13-01", "2020-00-10", "2019-02-29", "2020-04-31", f"{r.randint(1000, 2999)}-{r.randint(13, 99)}-{r.randint(1, 28):02d}",
                                   f"{r.randint(1000, 2999)}-{r.randint(1, 12):02d}-{r.randint(32, 99)}"]),
    "URI": _uri,
    "URI_FULL": _uri_full,
    "URI_BADSCHEME": lambda r: r.choice(["mailto:user@" + _host(r), "file:///etc/" + _word(r), "gopher://" + _host(r) + "/", "urn:isbn:" + str(r.randint(1, 10 ** 9)),
                                         "ssh://" + _host(r), "javascript:" + _word(r)]),
    "URI_NOSCHEME": lambda r: r.choice([_host(r) + "/" + _word(r), "//" + _host(r) + "/p", "/just/" + _word(r), "www." + _host(r)]),
    "URI_NOHOST": lambda r: r.choice(["http:///" + _word(r), "http:", "https:/" + _word(r), "ftp:" + _word(r), "https://"]),
    "URI_EXOTIC": lambda r: r.choice(["https://user:pw@" + _host(r) + "/x", "http://:@" + _host(r) + "/", "ftp://anonymous@" + _host(r) + "/pub", "http://[::1]:8080/p",
                                      "http://127.0.0.1:65535/", "http://" + _host(r) + ":99999/", "http://" + _host(r) + "/%zz", "http://" + _host(r) + "/a b",
                                      "http://" + _host(r) + "#frag", "HTTP://" + _host(r).upper() + "/", "http://" + _host(r) + "?", "https://" + _host(r) + "/%41%c3%a9",
                                      "http://xn--bcher-kva.example/", "http://bücher.example/", "http://" + _host(r) + "/\\path", "http://a..b/", "http://-a.b/",
                                      "https://" + "a" * 300 + ".example/"]),
    "URI_BRACKETS": lambda r: r.choice(["http://[::1/x", "https://::1]/x", "ftp://[not-an-address]/", "http://[192.168.0.1]/", "//[", "http://[", "http://]", "http://[]/", "https://[::1]]/",
                                        "http://[v1.x]/", "http://[::1]:80:80/", "http://a]b/", "http://[" + _word(r) + "]/", "ftp://[" + ":" * r.randint(1, 9) + "/"]),
    "LENIENT_INT": lambda r: r.choice(["+5", "007", "1_0", " 5", "5 ", "٣", "-0", "+0", "\t12\n"]),
    "LENIENT_FLOAT": lambda r: r.choice([".5", "5.", " 1.5 ", "1_0.5", "+1.5", "1e+2", "1.e2", "-.5", "٣.٥"]),
    "LENIENT_TIME": lambda r: r.choice(["12:30", "T12:30:00", "24:00:00", "123045", "12:30:45Z", "12:30:45+01:00", "12", "12:30:45,5"]),
    "LENIENT_DATE": lambda r: r.choice(["2020-1-5", "0045", "45", "20200229", "2020-02-29 ", "+2020"]),
}


def gen(cls, bucket, rnd):
    if cls == "INT":
        return INT_BUCKET[bucket](rnd)
    if cls == "DEC":
        return DEC_BUCKET[bucket](rnd)
    return GEN[cls](rnd)


def build_node(unit, element, content, has_kids, rules, dfas):
    """Node governed by unit with valid attributes and a valid child sequence (empty or not as asked).
    Returns (node, actual_has_kids) or None when the rule has no such child sequence."""
    d = dfas[unit]
    word = None
    # shortest accepted word, empty or non-empty as requested
    frontier = [((), d.init)]
    seen = {d.init}
    cands = []
    for _ in range(12):
        for w, s in frontier:
            if d.out[s] == "ACCEPT" and (len(w) > 0) == has_kids:
                cands.append(w)
        if cands:
            break
        nxt = []
        for w, s in frontier:
            for a in d.sigma:
                if a == c01.FOREIGN:
                    continue
                t = d.delta[s][a]
                if (t, len(w) + 1) not in seen:
                    seen.add((t, len(w) + 1))
                    nxt.append((w + (a,), t))
        frontier = nxt
    if not cands:
        return None
    word = cands[0]
    p = c01.realise(unit, element, word, rules)
    p.content = content
    return p


def judge(verdict, ff, craised, errs):
    from metapype.eml.exceptions import MetapypeRuleError
    bad = []
    if craised is not None:
        bad.append(("collecting-mode-raised", craised))
    if ff is not None and not isinstance(ff, MetapypeRuleError):
        bad.append(("failfast-non-rule-error", ff))
    rule_ff = ff is not None and isinstance(ff, MetapypeRuleError)
    if verdict == "ACCEPT":
        if rule_ff:
            bad.append(("valid-content-rejected-failfast", ff))
        if craised is None and errs:
            bad.append((f"valid-content-rejected-collecting:{errs[0][0].name}", None))
    elif verdict == "REJECT":
        if ff is None:
            bad.append(("invalid-content-accepted-failfast", None))
        if craised is None and not errs:
            bad.append(("invalid-content-accepted-collecting", None))
    if craised is None and (ff is None) != (not errs) and not any(b[0].startswith(("valid", "invalid")) for b in bad):
        bad.append(("modes-disagree", ff))
    return bad


_REUSED = {}


def w_cases(items):
    from metapype.model.node import Node
    out, n = [], 0
    counts = {"ACCEPT": 0, "REJECT": 0, "UNSPEC": 0}
    rules, dfas, elem = G["rules"], G["dfas"], G["elem"]
    # every case is validated twice, in two different histories (forward, then the whole batch in reverse order with
    # has-children cases first): the verdict of a node must not depend on what was validated before it
    order2 = sorted(items, key=lambda it: (not G["C"][it[0]]["hasKids"], -it[0]))
    for (i, seed, reps) in list(items) + order2:
        c = G["C"][i]
        rnd = random.Random(seed)
        unit = c["unit"]
        for rep_i in range(reps):
            if c["enum"] == "in":
                vals = [v for v in rules[unit][2]["content_enum"] if (v == "") == (c["cls"] == "EMPTY")]
                vals = [v for v in vals if v == "" or (v.isascii() and v.replace(" ", "").isalpha() and v.lower() not in ("nan", "inf", "infinity"))]
                if not vals:
                    break
                content = rnd.choice(vals)
            else:
                content = gen(c["cls"], c["bucket"], rnd)
                if c["enum"] == "out" and content in rules[unit][2]["content_enum"]:
                    continue
            el = elem.get(unit)
            p = build_node(unit, el, content, c["hasKids"], rules, dfas)
            if p is None:
                break
            if rep_i % 3 == 2:             # decorations content rules do not speak about: the node's own prefix, its registry entry
                p.prefix = "ns0" if rep_i % 2 else "eml"
                if rep_i % 2 == 0:
                    p.add_namespace("eml", "eml://ecoinformatics.org/eml-2.1.1")
                Node.store.pop(p.id, None)
                if rep_i % 4 == 1:         # ... and where the node hangs: below foreign content of a metadata element
                    holder = Node("metadata")
                    wrap = Node("zzForeignWrapper")
                    holder.add_child(wrap)
                    wrap.add_child(p)
            robj = None
            if rep_i % 3 == 1 and unit != "@metadata" and p.name != "metadata":
                from metapype.eml import rule as _rule
                robj = _REUSED.get(unit)
                if robj is None:
                    robj = _REUSED[unit] = _rule.Rule(unit)      # ONE rule object per rule for the whole worker: its answers must not depend on its past
            ff, craised, errs = c01.validate_both(unit, el, p, rule_obj=robj)
            Node.store.clear()
            n += 1
            counts[c["verdict"]] += 1
            # (class SURROGATE - not a Unicode string - is UNSPEC for every kind: only totality is judged, as C04 does)
            for clause, exc in judge(c["verdict"], ff, craised, errs):
                e = f":{type(exc).__name__}" if exc is not None else ""
                cls = c["cls"] + (":" + c["bucket"] if c["bucket"] else "")
                out.append((f"{clause}{e}:{'+'.join(c['kinds'])}:{cls}" + (f":enum-{c['enum']}" if c["enum"] != "none" else ""),
                            f"{unit} content {content!r} (class {cls}, hasKids={c['hasKids']}, enum={c['enum']}): expected {c['verdict']}; "
                            f"fail-fast {ff!r}; collecting raised {craised!r} codes {[x[0].name for x in errs]}",
                            {"kind": "content", "unit": unit, "element": el, "content": content, "class": cls, "hasKids": c["hasKids"],
                             "enum": c["enum"], "verdict": c["verdict"]}))
            if c["cls"] in ("NONE", "EMPTY") and c["enum"] != "in":
                break        # a single member
    return n, out, counts


LEX_RULES = [("int", "anyIntRule"), ("float", "anyFloatRule"), ("ew", "boundingCoordinateRule_EW"), ("ns", "boundingCoordinateRule_NS"),
             ("nonneg", "anyNonNegativeFloatRule"), ("yd", "calendarDateRule"), ("time", "timeRule")]


def w_lexical(idx):
    """Lexical.tla: every short string over {-,+,0,1,8,9,.,e} through the int / float / ranged rules."""
    from metapype.model.node import Node
    from metapype.eml import rule
    from metapype.eml.exceptions import MetapypeRuleError
    out, n = [], 0
    robj = {k: rule.Rule(r) for k, r in LEX_RULES if r in G["rules"]}
    for i in idx:
        L = G["L"][i]
        text = "".join(L["s"])
        for k, r in robj.items():
            if k not in L:
                continue
            verdict = L[k]
            node = Node("zzLexical", content=text)
            ff = None
            try:
                r._validate_content(node, False, None) if False else r.validate_rule(node)
            except Exception as e:  # noqa: BLE001
                ff = e
            errs = []
            craised = None
            try:
                r.validate_rule(node, errs)
            except Exception as e:  # noqa: BLE001
                craised = e
            n += 1
            cerr = [e for e in errs if e[0].name.startswith("CONTENT")]
            ffc = ff if (ff is None or not isinstance(ff, MetapypeRuleError) or "content" in str(ff) or "range" in str(ff) or "non-negative" in str(ff) or "format should be" in str(ff)) else None
            bad = []
            if craised is not None:
                bad.append(("collecting-mode-raised", craised))
            if ff is not None and not isinstance(ff, MetapypeRuleError):
                bad.append(("failfast-non-rule-error", ff))
            elif verdict == "ACCEPT" and (ffc is not None or cerr):
                bad.append(("canonical-form-rejected", ffc))
            elif verdict == "REJECT" and ((ffc is None) or (craised is None and not cerr)):
                bad.append(("non-member-accepted", None))
            for clause, exc in bad:
                e = f":{type(exc).__name__}" if exc is not None else ""
                out.append((f"lexical:{clause}{e}:{k}", f"{dict(LEX_RULES)[k]} content {text!r}: spec verdict {verdict}; fail-fast {ff!r}; collecting {craised!r} {[x[0].name for x in errs]}",
                            {"kind": "lexical", "rule": dict(LEX_RULES)[k], "content": text, "verdict": verdict}))
        Node.store.clear()
    return n, out


def run(rep, tier, seed):
    from harness.world import Node  # noqa: F401
    wd, rules, node_map, dfas = c01.prepare(rep, tier, pid=PID)
    out = os.path.join(wd, "content.out")
    r = run_tlc("MC_Content", cfg=os.path.join(SPEC, "MC_Content.cfg"), stdout_path=out, timeout=1200, lib=wd)
    if not r.ok or r.invariant_violated:
        raise MachineryError("MC_Content failed:\n" + r.out[-2000:])
    rep.add_tlc(r, "MC_Content.cfg (decision table: every rule x class x hasKids x enum)")
    C = load_log_all(out)["C"]
    os.remove(out)
    # sanity of the model: every rule has an accepting class (also feeds C10)
    by_unit = {}
    for c in C:
        by_unit.setdefault(c["unit"], set()).add(c["verdict"])
    noacc = [u for u, v in by_unit.items() if "ACCEPT" not in v]
    rep.notes["rules_without_accepting_content_class"] = noacc
    elem = {}
    for el, ru in node_map.items():
        if el != "metadata":
            elem.setdefault(ru, el)
    G.update(C=C, rules=rules, dfas=dfas, elem=elem)
    reps = 12 if tier == "quick" else 400
    items = [(i, seed * 1000003 + i, reps) for i in range(len(C))]
    res = parallel(w_cases, items)
    n = 0
    counts = {"ACCEPT": 0, "REJECT": 0, "UNSPEC": 0}
    for m, outl, cn in res:
        n += m
        for k in counts:
            counts[k] += cn[k]
        for key, det, replay in outl:
            rep.violation(f"{PID}:{key}", det[:600], replay)
    # lexical layer in TLA+: all short strings over a tiny alphabet
    cfgl = os.path.join(wd, "Lexical.cfg")
    open(cfgl, "w").write(f"SPECIFICATION Spec\nCONSTANT MaxLen = {5 if tier == 'quick' else 6}\nINVARIANT StrictWithinGenerous\nINVARIANT Log\n")
    outl = os.path.join(wd, "lexical.out")
    rl = run_tlc("Lexical", cfg=cfgl, stdout_path=outl, timeout=1800)
    if rl.invariant_violated or not rl.ok:
        raise MachineryError("SPEC ERROR: Lexical.tla strict grammar not within the generous one:\n" + rl.out[-1500:])
    rep.add_tlc(rl, "Lexical.cfg (strict / generous grammars of int and float on all short strings)")
    G["L"] = load_log_all(outl)["L"]
    os.remove(outl)
    # the same for year-or-date and time over {+,-,0,1,2,9,:,T}
    cfgd = os.path.join(wd, "LexDate.cfg")
    open(cfgd, "w").write(f"SPECIFICATION Spec\nCONSTANT MaxLen = {5 if tier == 'quick' else 6}\nINVARIANT StrictWithinGenerous\nINVARIANT Log\n")
    rd = run_tlc("LexDate", cfg=cfgd, stdout_path=outl, timeout=1800)
    if rd.invariant_violated or not rd.ok:
        raise MachineryError("SPEC ERROR: LexDate.tla:\n" + rd.out[-1500:])
    rep.add_tlc(rd, "LexDate.cfg (strict / generous grammars of year-or-date and time on all short strings)")
    LD = load_log_all(outl)["L"]
    os.remove(outl)
    rep.notes["lexdate_strings"] = len(LD)
    rep.notes["lexdate_verdicts"] = {k: {v: sum(1 for x in LD if x[k] == v) for v in ("ACCEPT", "REJECT", "UNSPEC")} for k in ("yd", "time")}
    G["L"] = G["L"] + LD
    nl = 0
    for m, outl_ in parallel(w_lexical, range(len(G["L"]))):
        nl += m
        for key, det, replay in outl_:
            rep.violation(f"{PID}:{key}", det[:500], replay)
    rep.notes["lexical_strings"] = len(G["L"])
    rep.notes["lexical_validations"] = nl
    rep.notes["strings_validated_both_modes"] = n
    rep.notes["verdicts"] = counts
    rep.notes["unknown_kind_combinations_not_judged"] = sorted({"+".join(c["kinds"]) for c in C if not c["known"]})
    if not counts["ACCEPT"] or not counts["REJECT"]:
        raise MachineryError(f"vacuous: {counts}")
    rep.sample({"rule": C[len(C) // 3]["unit"], "class": C[len(C) // 3]["cls"], "bucket": C[len(C) // 3]["bucket"], "verdict": C[len(C) // 3]["verdict"]})
    rep.cov["evaluations"] = n * 2
    rep.cov["distinct_nontrivial"] = len(C)
    rep.cov["rule"] = "distinct = (rule, content class incl. boundary bucket, hasKids, enum) combinations of the TLC-evaluated decision table; each concretised by several generated strings"
    rep.cov["exhaustive"] = False
    rep.assumptions += ["which strings belong to a class is decided by the constructive generators, not by the specification",
                        "lenient spellings (LENIENT_*, blank text, NaN/inf for unranged float, lone surrogates) are UNSPEC and only checked for totality",
                        "content is set through the public setter (str or None)"]
