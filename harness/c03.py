"""C03 - attribute validation enforces exactly required / allowed / enumerated.

MC_Attr (TLC): AddAttribute/RemoveAttribute on one node reach every assignment over the
abstraction {absent, each listed value, one unlisted value} per declared attribute x
{no foreign attribute, one foreign attribute}; for each TLC states the exact set of violated
constraints.  Every state is realised (attributes added in a seeded order with add/remove
noise) on a node whose content and children are valid; collecting mode must yield exactly that
multiset of (code, attribute) and raise nothing, fail-fast must raise a rule error iff it is
non-empty; the introspection queries must report the table's facts.
"""
import collections
import os
import random

from harness import common
from harness.common import MachineryError, run_tlc, SPEC, workdir, parallel
from harness.c09 import load_log_all
from harness import c01, c02

PID = "C03"
G = {}
FOREIGN_ATTR = "zzForeignAttr"
UNLISTED_VAL = "zzUnlistedValue"


_WORDS = {}


def word_with(unit, sym):
    """shortest child sequence the rule accepts that contains a child named sym (None: there is none)"""
    key = (unit, sym)
    if key not in _WORDS:
        d = G["dfas"][unit]
        start = (d.init, False)
        prev = {start: None}
        frontier = [start]
        found = None
        while frontier and found is None:
            nxt = []
            for st in frontier:
                if st[1] and d.out[st[0]] == "ACCEPT":
                    found = st
                    break
                for b in d.sigma:
                    if b == c01.FOREIGN:
                        continue
                    t = (d.delta[st[0]][b], st[1] or b == sym)
                    if t not in prev:
                        prev[t] = (st, b)
                        nxt.append(t)
            frontier = nxt
        w = None
        if found is not None:
            w = []
            while prev[found] is not None:
                found, b = prev[found]
                w.append(b)
            w.reverse()
        _WORDS[key] = w
    return _WORDS[key]


def one_state(a, seed, fname, unlisted=None, decor=None):
    from metapype.model.node import Node
    from metapype.eml.exceptions import MetapypeRuleError
    rules, dfas, elem = G["rules"], G["dfas"], G["elem"]
    out, n = [], 0
    if True:
        unit = a["unit"]
        el = elem.get(unit)
        rnd = random.Random(seed)
        p = c02.build_node(unit, el, None, False, rules, dfas) or c02.build_node(unit, el, None, True, rules, dfas)
        if p is None:
            return n, out
        base = c01.parent_for(unit, el, rules)
        p.content = base.content
        if decor and decor.startswith("kids:"):
            # attribute rules speak about the node's attributes: the same assignment on a node that HAS children (a valid
            # sequence containing a child of the given name) gets the same verdict
            w = word_with(unit, decor[5:])
            if w is None:
                return n, out
            p = c01.realise(unit, el, w, rules)
        if decor == "prefix-unbound":          # the node's own prefix field and namespace map are not what attribute rules speak about
            p.prefix = "ns0"
        elif decor == "below-metadata":
            holder = Node("metadata")
            wrap = Node("zzForeignWrapper")
            holder.add_child(wrap)
            wrap.add_child(p)
        elif decor == "prefix-other-namespace":
            p.prefix = "eml"
            p.add_namespace("eml", "eml://ecoinformatics.org/eml-2.1.1")
        for k in list(p.attributes):
            p.remove_attribute(k)
        want = {}
        for slot, v in a["asg"].items():
            if v == "~absent":
                continue
            name = fname if slot == "~foreignAttr" else slot
            if v == "~unlisted":
                # one unlisted value stands for all of them - concretised adversarially: values that resemble listed ones
                listed = [x for x in (rules[unit][0].get(slot) or [None])[1:]]
                pool = [UNLISTED_VAL, ""]
                for x in listed:
                    pool += [x[: max(1, len(x) // 2)], x[1:], x.upper(), x + " ", " " + x, x + x]
                if len(listed) > 1:
                    pool += [", ".join(listed[:2]), listed[0] + listed[1]]
                pool = [x for x in pool if x not in listed]
                v = rnd.choice(pool) if unlisted is None else unlisted[0]
            want[name] = v
        order = list(want.items())
        rnd.shuffle(order)
        for name, v in order:
            if rnd.random() < 0.3:                       # noise: add a wrong value / remove / re-add
                p.add_attribute(name, "zzNoise")
                if rnd.random() < 0.5:
                    p.remove_attribute(name)
            p.add_attribute(name, v)
        if rnd.random() < 0.3:
            p.add_attribute("zzTemp", "x")
            p.remove_attribute("zzTemp")
        extra_foreign = []
        if decor == "more-foreign":
            # the model has ONE foreign attribute; here two more follow it directly in insertion order (one error each)
            if fname in p.attributes:
                v0 = p.attributes[fname]
                p.remove_attribute(fname)
                p.add_attribute(fname, v0)
            extra_foreign = [fname + "-too", "zzAnotherForeign"]
            for x in extra_foreign:
                p.add_attribute(x, "v")
        ff, craised, errs = c01.validate_both(unit, el, p)
        Node.store.clear()
        n += 1
        exp = collections.Counter((c, fname if s == "~foreignAttr" else s) for c, s in a["errs"])
        exp.update(("ATTRIBUTE_UNRECOGNIZED", x) for x in extra_foreign)
        got = collections.Counter((e[0].name, e[3] if len(e) > 3 else None) for e in errs)
        replay = {"kind": "attrs", "unit": unit, "element": el, "attributes": want, "expected": sorted(exp.elements())}
        if craised is not None:
            out.append((f"collecting-mode-raised:{type(craised).__name__}", f"{unit} attrs {want}: {craised!r}", replay))
        elif got != exp:
            missing = sorted((exp - got).elements())
            extra = sorted((got - exp).elements())
            kind = "missing:" + missing[0][0] if missing else "extra:" + extra[0][0]
            out.append((f"collecting-errors-differ:{kind}", f"{unit} attrs {want}: expected {sorted(exp.elements())} got {sorted(got.elements())}", replay))
        if ff is not None and isinstance(ff, MetapypeRuleError) and craised is None and errs and str(ff) != errs[0][1] and len(errs) > 1:
            # "fail-fast mode raises for the first": the exception speaks of the constraint that collecting mode reports first
            out.append(("failfast-not-for-the-first-violation", f"{unit} attrs {want}: fail-fast says {str(ff)!r}; collecting mode reports first {errs[0][1]!r} (of {len(errs)})", replay))
        if ff is not None and not isinstance(ff, MetapypeRuleError):
            out.append((f"failfast-non-rule-error:{type(ff).__name__}", f"{unit} attrs {want}: {ff!r}", replay))
        elif (ff is not None) != bool(exp):
            which = sorted(exp.elements())[0][0] if exp else "none"
            out.append((f"failfast-{'accepted' if ff is None else 'rejected'}:{which}", f"{unit} attrs {want}: expected errors {sorted(exp.elements())}; fail-fast {ff!r}", replay))
    return n, out


def w_states(items):
    from metapype.model.node import Node
    from metapype.eml.exceptions import MetapypeRuleError
    out, n = [], 0
    rules, dfas, elem = G["rules"], G["dfas"], G["elem"]
    for (i, seed) in items:
        a = G["A"][i]
        unit = a["unit"]
        # one foreign attribute name stands for all of them - concretised adversarially: names that resemble declared ones
        fnames = [FOREIGN_ATTR]
        if a["asg"].get("~foreignAttr", "~absent") != "~absent":
            for d in rules[unit][0]:
                fnames += ["x:" + d, "xml:" + d, d + " ", " " + d, d.upper(), d.capitalize(), d[:-1], d + d, d + ":x", "{u}" + d]
            fnames += ["", ":", "a:b:c"]
            fnames = [f for k, f in enumerate(fnames) if f not in rules[unit][0] and f not in fnames[:k]]
        for fname in fnames:
            n_, out_ = one_state(a, seed, fname)
            n += n_
            out += out_
        for decor in ("prefix-unbound", "prefix-other-namespace", "below-metadata", "more-foreign"):
            n_, out_ = one_state(a, seed, FOREIGN_ATTR, decor=decor)
            n += n_
            out += [(k + ":" + decor, d_, r_) for (k, d_, r_) in out_]
        for sym in G["dfas"][unit].sigma:
            if sym != c01.FOREIGN and unit != "@metadata":
                n_, out_ = one_state(a, seed, FOREIGN_ATTR, decor="kids:" + sym)
                n += n_
                out += [(k + ":node-has-children", d_ + f" [children: a valid sequence containing {sym}]", dict(r_, children_with=sym)) for (k, d_, r_) in out_]
        # the one unlisted value realised by values that are not strings at all (a JSON model may carry false, 0, 1, null)
        if any(v == "~unlisted" for v in a["asg"].values()):
            for typed in (False, True, 0, 1, 0.0, None, ()):
                n_, out_ = one_state(a, seed, FOREIGN_ATTR, unlisted=(typed,))
                n += n_
                out += out_
    # several nodes of one rule - including the same assignment twice - validated by ONE validate.tree walk into ONE list:
    # one error per violated constraint PER NODE, whatever the list already holds
    by_unit = {}
    for (i, seed) in items:
        by_unit.setdefault(G["A"][i]["unit"], []).append((i, seed))
    for unit, its in by_unit.items():
        el = elem.get(unit)
        if not el:
            continue
        for lo in range(0, len(its), 8):
            batch = its[lo:lo + 8]
            batch = batch + batch[:2]                 # the first two assignments occur twice in the walk
            parents, exps = [], []
            for (i, seed) in batch:
                a = G["A"][i]
                p = c02.build_node(unit, el, None, False, rules, dfas) or c02.build_node(unit, el, None, True, rules, dfas)
                if p is None:
                    continue
                p.content = c01.parent_for(unit, el, rules).content
                for k in list(p.attributes):
                    p.remove_attribute(k)
                for slot, v in a["asg"].items():
                    if v != "~absent":
                        p.add_attribute(FOREIGN_ATTR if slot == "~foreignAttr" else slot, UNLISTED_VAL if v == "~unlisted" else v)
                parents.append(p)
                exps.append(collections.Counter((cc, FOREIGN_ATTR if s == "~foreignAttr" else s) for cc, s in a["errs"]))
            # ONE rule object (rule.get_rule / rule.Rule hand them out) validating all these nodes in turn, collecting and
            # fail-fast alternating: what it says about a node must not depend on the nodes it has seen
            from metapype.eml import rule as _rule
            from metapype.eml.exceptions import MetapypeRuleError as _MRE
            robj = _rule.Rule(unit)
            for k, (p, exp) in enumerate(zip(parents, exps)):
                n += 1
                if k % 2 == 0:
                    errs = []
                    try:
                        robj._validate_attributes(p, errs) if False else robj.validate_rule(p, errs)
                    except Exception as e:  # noqa: BLE001
                        out.append((f"reused-rule-object:collecting-mode-raised:{type(e).__name__}", repr(e), {"kind": "reused-rule", "unit": unit}))
                        continue
                    got = collections.Counter((e[0].name, e[3] if len(e) > 3 else None) for e in errs if e[0].name.startswith("ATTRIBUTE"))
                    if got != exp:
                        out.append(("reused-rule-object:collecting-errors-differ", f"{unit} attrs {dict(p.attributes)} as node {k + 1} validated by one Rule object: expected {sorted(exp.elements())} got {sorted(got.elements())}",
                                    {"kind": "reused-rule", "unit": unit, "attributes": dict(p.attributes), "position": k + 1, "expected": sorted(exp.elements())}))
                else:
                    ff = None
                    try:
                        robj.validate_rule(p)
                    except Exception as e:  # noqa: BLE001
                        ff = e
                    if ff is not None and not isinstance(ff, _MRE):
                        out.append((f"reused-rule-object:failfast-non-rule-error:{type(ff).__name__}", repr(ff), {"kind": "reused-rule", "unit": unit}))
                    elif ff is None and exp:
                        out.append(("reused-rule-object:failfast-accepted", f"{unit} attrs {dict(p.attributes)} as node {k + 1} validated by one Rule object: expected errors {sorted(exp.elements())}, nothing raised",
                                    {"kind": "reused-rule", "unit": unit, "attributes": dict(p.attributes), "position": k + 1, "expected": sorted(exp.elements())}))
            raised, by = c01.forest_errors(parents)
            Node.store.clear()
            if raised is not None:
                out.append((f"forest:collecting-mode-raised:{type(raised).__name__}", repr(raised), {"kind": "forest", "unit": unit}))
                continue
            for p, exp in zip(parents, exps):
                got = collections.Counter((e[0].name, e[3] if len(e) > 3 else None) for e in by.get(id(p), []) if e[0].name.startswith("ATTRIBUTE"))
                n += 1
                if got != exp:
                    out.append(("forest:collecting-errors-differ", f"{unit} attrs {dict(p.attributes)} inside one walk over {len(parents)} nodes: expected {sorted(exp.elements())} got {sorted(got.elements())}",
                                {"kind": "forest", "unit": unit, "attributes": dict(p.attributes), "expected": sorted(exp.elements())}))
    return n, out


def run(rep, tier, seed):
    from harness.world import Node  # noqa: F401
    from metapype.eml import rule
    wd, rules, node_map, dfas = c01.prepare(rep, tier, pid=PID)
    out = os.path.join(wd, "attr.out")
    r = run_tlc("MC_Attr", cfg=os.path.join(SPEC, "MC_Attr.cfg"), stdout_path=out, timeout=1200, lib=wd)
    if not r.ok:
        raise MachineryError("MC_Attr failed:\n" + r.out[-2000:])
    rep.add_tlc(r, "MC_Attr.cfg (every attribute assignment of every rule)")
    log = load_log_all(out)
    os.remove(out)
    A, U = log["A"], log["U"]
    if len(A) != r.distinct:
        raise MachineryError(f"{len(A)} states logged, {r.distinct} distinct")
    elem = {}
    for el, ru in node_map.items():
        if el != "metadata":
            elem.setdefault(ru, el)
    G.update(A=A, rules=rules, dfas=dfas, elem=elem)
    reps = 6 if tier == "quick" else 60
    items = [(i, seed * 7907 + i * 131 + k) for i in range(len(A)) for k in range(reps)]
    nS = 0
    for n, outl in parallel(w_states, items):
        nS += n
        for key, det, replay in outl:
            rep.violation(f"{PID}:{key}:{replay['unit']}", det[:500], replay)
    kinds = collections.Counter(c for a in A for c, _ in a["errs"])
    rep.notes["states_replayed"] = nS
    rep.notes["model_error_kinds"] = dict(kinds)
    if set(kinds) != {"ATTRIBUTE_REQUIRED", "ATTRIBUTE_UNRECOGNIZED", "ATTRIBUTE_EXPECTED_ENUM"}:
        raise MachineryError(f"vacuous model: error kinds {dict(kinds)}")
    # introspection queries
    nQ = 0
    for u in U:
        unit = u["unit"]
        ro = rule.Rule(unit)
        decl = u["decl"] if isinstance(u["decl"], dict) else {}
        for a, d in decl.items():
            nQ += 2
            try:
                if bool(ro.is_required_attribute(a)) != d["required"]:
                    rep.violation(f"{PID}:is_required_attribute:{unit}", f"{unit}.{a}: table says required={d['required']}", {"kind": "introspection", "unit": unit, "attribute": a})
                if sorted(ro.allowed_attribute_values(a)) != sorted(d["values"]):
                    rep.violation(f"{PID}:allowed_attribute_values:{unit}", f"{unit}.{a}: table says {d['values']}, query says {ro.allowed_attribute_values(a)}", {"kind": "introspection", "unit": unit, "attribute": a})
            except Exception as e:  # noqa: BLE001
                rep.violation(f"{PID}:introspection-raised:{type(e).__name__}:{unit}", f"{unit}.{a}: {e!r}", {"kind": "introspection", "unit": unit, "attribute": a})
        for q, fa in [(q, fa) for q in (ro.is_required_attribute, ro.allowed_attribute_values)
                      for fa in [FOREIGN_ATTR] + [v for d in decl for v in ("x:" + d, "xml:" + d, d + " ", d.upper(), d[:-1]) if v not in decl]]:
            nQ += 1
            try:
                q(fa)
                rep.violation(f"{PID}:introspection-accepts-foreign-attribute:{unit}", f"{q.__name__}({fa!r}) did not raise", {"kind": "introspection", "unit": unit})
            except Exception:  # noqa: BLE001 - documented: raises for an unknown attribute
                pass
    rep.notes["introspection_queries"] = nQ
    rep.sample(A[len(A) // 2])
    rep.cov["evaluations"] = nS * 2 + nQ
    rep.cov["distinct_nontrivial"] = len(A)
    rep.cov["rule"] = "distinct = attribute assignments (states of MC_Attr) over the abstraction, complete for every rule"
    rep.cov["exhaustive"] = True
    rep.assumptions += ["one unlisted value / one foreign attribute name stand for all of them in the model; realised adversarially (values and names that resemble declared ones: prefixed, padded, case-changed, truncated, doubled)"]
