"""Generates spec constants from /repo's working tree at check time:

  RuleTable.tla : rules.json verbatim (generic JSON encoding of RuleJson.tla), the element
                  name -> rule name map, the content-rule kinds the code implements (probed
                  with a synthetic rule), the mixed-content rules (constant of the spec).
A legitimately extended table changes the generated constants, not the verdicts.
"""
import json
import os

from harness.common import REPO, use_repo

MIXED = ["textRule", "anyNameRule", "paraRule", "subscriptRule", "superscriptRule"]
CANON_KINDS = ["emptyContent", "floatContent", "floatRangeContent_EW", "floatRangeContent_NS", "floatContent_Nonnegative",
               "intContent", "nonEmptyContent", "strContent", "timeContent", "uriContent", "yearDateContent", "anyContent"]


def tla_str(s):
    assert all(32 <= ord(c) < 127 for c in s), f"non-ASCII string in rule table: {s!r}"
    return '"' + s.replace("\\", "\\\\").replace('"', '\\"') + '"'


def tla_json(v):
    if v is None:
        return "JN"
    if isinstance(v, bool):
        return "JB(TRUE)" if v else "JB(FALSE)"
    if isinstance(v, int):
        return f"JI({v})"
    if isinstance(v, str):
        return f"JS({tla_str(v)})"
    if isinstance(v, list):
        return "JL(<<" + ", ".join(tla_json(x) for x in v) + ">>)"
    if isinstance(v, dict):
        return "JO(<<" + ", ".join("JL(<<" + tla_json(k) + ", " + tla_json(x) + ">>)" for k, x in v.items()) + ">>)"
    raise TypeError(f"unsupported JSON value {v!r} (floats are not part of the rule language)")


def tla_map(pairs, indent="   "):
    if not pairs:
        return "<<>>"
    return (" @@\n" + indent).join(f"({tla_str(k)} :> {v})" for k, v in pairs)


def load_tables():
    """Returns (rules_from_file, node_map, implemented_kinds, rules_dict_as_loaded)."""
    use_repo()
    from metapype.eml import rule
    from metapype.model.node import Node
    from metapype.eml.validation_errors import ValidationError
    path = os.path.join(REPO, "src", "metapype", "eml", "rules.json")
    rules = json.load(open(path))
    node_map = dict(rule.node_mappings)
    kinds = set(CANON_KINDS)
    for r in rules.values():
        try:
            kinds |= set(r[2]["content_rules"])
        except Exception:  # noqa: BLE001 - malformed rule: judged by the spec, not here
            pass
    implemented = []
    for k in sorted(kinds):
        rule.rules_dict["__probeRule"] = [{}, [], {"content_rules": [k]}]
        try:
            errs = []
            n = Node("probe")
            rule.Rule("__probeRule").validate_rule(n, errs)
            unknown = any(e[0] == ValidationError.UNKNOWN_CONTENT_RULE for e in errs)
        except Exception:  # noqa: BLE001 - a crashing validator is still an implemented kind
            unknown = False
        finally:
            rule.rules_dict.pop("__probeRule", None)
            Node.store.clear()
        if not unknown:
            implemented.append(k)
    return rules, node_map, implemented, {k: v for k, v in rule.rules_dict.items()}


def write_rule_table(dirpath):
    rules, node_map, implemented, loaded = load_tables()
    lines = ["------------------------------ MODULE RuleTable ------------------------------",
             "(* GENERATED at check time from the working tree - do not edit *)",
             "EXTENDS RuleJson",
             "",
             "RulesJson ==\n   " + tla_map([(k, tla_json(v)) for k, v in rules.items()]),
             "",
             "NodeMap ==\n   " + tla_map([(k, "NOMAP" if v is None else tla_str(v)) for k, v in node_map.items()]).replace("NOMAP", '"~"'),
             "",
             "MixedRules == {" + ", ".join(tla_str(m) for m in MIXED) + "}",
             "ImplementedContentRules == {" + ", ".join(tla_str(m) for m in implemented) + "}",
             "=============================================================================", ""]
    with open(os.path.join(dirpath, "RuleTable.tla"), "w") as f:
        f.write("\n".join(lines))
    return rules, node_map, implemented, loaded
