"""C15 - prune removes exactly the offending subtrees and nothing else.

Plans (skeleton x <=2 plantings (site, kind) x strict) are enumerated by TLC (MC_Plans), realised
as concrete trees, pruned, and every prune is judged relationally by TraceEml.tla (PruneClauses)
on the logged pre/post projections, the returned list, the registry and observed validate.node
outcomes.  Seeded plantings at arbitrary depth on the EML fixture and on generated valid and
invalid trees go through the same judge.
"""
import os
import random

from harness.common import deadline, MachineryError, run_tlc, SPEC, workdir, parallel, judge_traces
from harness import tables, valtrace
from harness.world import World, Node
from harness.tables import walk

PID = "C15"
G = {}
ALLF = ("name", "kids", "ns", "content", "tail", "prefix", "attrs", "extras", "store")


def skeleton(kind):
    if kind == "access":
        a = Node("access")
        a.add_attribute("authSystem", "x")
        al = Node("allow")
        a.add_child(al)
        al.add_child(Node("principal", content="p"))
        al.add_child(Node("permission", content="read"))
        return a
    if kind == "dataset":
        d = Node("dataset")
        d.add_child(Node("title", content="t"))
        c = Node("creator")
        d.add_child(c)
        i = Node("individualName")
        c.add_child(i)
        i.add_child(Node("surName", content="s"))
        k = Node("contact")
        d.add_child(k)
        k.add_child(Node("organizationName", content="o"))
        return d
    if kind == "interleaved":
        # children that repeat names in NON-adjacent positions (legal mixed content): "kept nodes keep their order" is about
        # exactly such lists
        a = Node("abstract")
        for k, nm in enumerate(["para", "section", "para", "markdown", "section", "para", "markdown"]):
            c = Node(nm, content=None if nm == "section" else "text %d" % k)
            if nm == "section":
                c.add_child(Node("title", content="s%d" % k))
                c.add_child(Node("para", content="p%d" % k))
            a.add_child(c)
        return a
    if kind == "inline":
        # distribution/inline: in the EML schema inline is xs:any, in this library it is an ordinary text leaf - what hangs
        # below it is NOT metadata content
        d = Node("distribution")
        i = Node("inline", content="a,b\n1,2")
        d.add_child(i)
        return d
    if kind == "metadataRoot":
        # a free-standing additionalMetadata payload: the tree handed to prune is rooted at the metadata element itself
        md = Node("metadata")
        j = Node("unitList")
        md.add_child(j)
        u = Node("zzUnit", content="x")
        j.add_child(u)
        u.add_child(Node("zzInner", content="y"))
        return md
    if kind in ("eml", "relatedProject"):
        # parents whose rule lists a child name that is not a known element (if the table has such names)
        if kind == "eml":
            e = Node("eml")
            e.add_attribute("packageId", "p.1.1")
            e.add_attribute("system", "s")
            e.add_child(skeleton("dataset"))
            return e
        rp = Node("relatedProject")
        rp.add_child(Node("title", content="t"))
        pe = Node("personnel")
        rp.add_child(pe)
        pe.add_child(Node("organizationName", content="o"))
        pe.add_child(Node("role", content="r"))
        return rp
    am = Node("additionalMetadata")
    md = Node("metadata")
    am.add_child(md)
    j = Node("zzJunk")
    md.add_child(j)
    j.add_child(Node("zzInner", content="x"))
    return am


def plant(n, kind, rnd, t):
    before = set(map(id, n.children))
    _plant(n, kind, rnd, t)
    for c in n.children:
        # planted nodes carry tail text, as inline elements of imported mixed content do: removing a node does not hand
        # its text to anybody else (kept nodes are untouched)
        if id(c) not in before and rnd.random() < 0.7:
            c.tail = rnd.choice([" tail of the planted node ", "x", " "])


def _plant(n, kind, rnd, t):
    if kind == "unknown-child":
        # not a known element - also look-alikes of known names (re-cased, padded, qualified): names are compared exactly
        j = Node(rnd.choice(["zzUnknown", "zzUnknown", "Title", "title ", "{u}title", "eml:dataset", "PARA", "creators", "data", "meta", "metadat", "Metadata", "inlin"]))
        j.add_child(Node("title", content="inner"))
        n.add_child(j, index=rnd.randint(0, len(n.children)))
    elif kind == "unknown-leaf":
        listed = [x for x in (t.dfas[t.node_map[n.name]].sigma if n.name in t.node_map else []) if not x.startswith("~") and x not in t.node_map]
        n.add_child(Node(listed[0] if listed else "zzUnknownLeaf"), index=rnd.randint(0, len(n.children)))
    elif kind == "misplaced-known-child":
        names = set(t.dfas[t.node_map[n.name]].sigma) if n.name in t.node_map else set()
        cand = [x for x in ("title", "para", "dataset", "surName", "access") if x not in names]
        n.add_child(Node(cand[0], content="m"), index=rnd.randint(0, len(n.children)))
    elif kind == "invalid-content":
        n.content = "zqBad" if n.content is None else None
    elif kind == "invalid-content-not-unicode":
        n.content = "Gau\ud800ghan"                 # a str with a lone surrogate (a JSON document can carry one): an invalid node like any other
    elif kind == "invalid-attribute":
        n.add_attribute("zzBadAttr", "1")
    elif kind == "allowed-but-invalid-child-in-front":
        # a child with a name the rule allows (the name of the LAST child), but empty (invalid itself) and put in front of
        # everything: once it is pruned the parent is as valid as it was
        if n.children:
            n.add_child(Node(n.children[-1].name), index=0)
    elif kind == "starve-required-child":
        if n.children:
            n.remove_child(n.children[0])


def observe_valid(n):
    from metapype.eml import validate
    try:
        validate.node(n)
        return True
    except Exception:  # noqa: BLE001
        return False


def record_prune(root, strict, desc, at=None):
    """prune(at) - by default the whole tree; `at` may be a node inside the tree (a model is pruned in place below one of
    its elements) or a root whose parent pointer still names the element it was detached from"""
    from metapype.eml import validate
    w = World(clear=False)
    w.track_tree(root)
    whole, root = root, (at if at is not None else root)
    pre = w.pi(ALLF)
    raised = ""
    ret = []
    try:
        with deadline(20):
            out = validate.prune(root, strict=strict)
        for item in out:
            ok = isinstance(item, tuple) and len(item) == 2 and isinstance(item[1], str)
            ret.append([w.ident(item[0]) if isinstance(item, tuple) else -99, bool(ok)])
    except Exception as e:  # noqa: BLE001
        raised = type(e).__name__
    post = w.pi(ALLF)
    n = len(w.nodes)
    post_valid = [observe_valid(x) for x in w.nodes]
    removed_valid = list(post_valid)        # the removed roots keep their (already pruned) children: observed detached
    if strict and not raised:
        # strict mode removes a node only when it is STILL invalid once everything offending below it is gone: a removed root
        # whose free-standing copy becomes valid by pruning it was removed too early
        for item in out:
            if isinstance(item, tuple) and len(item) == 2 and w.ident(item[0]) > 0 and not removed_valid[w.ident(item[0]) - 1]:
                try:
                    c = item[0].copy()
                    c.parent = None
                    with deadline(20):
                        validate.prune(c, strict=True)
                    if observe_valid(c):
                        removed_valid[w.ident(item[0]) - 1] = True
                    Node.delete_node_instance(c.id)
                except Exception:  # noqa: BLE001
                    pass
    second_raised = ""
    try:
        with deadline(20):
            second = validate.prune(root, strict=strict)
        second_ret = len(second)
    except Exception as e:  # noqa: BLE001
        second_ret = -1
    second_post = w.pi(ALLF)
    return {"op": "prune", "pre": pre, "post": post, "root": w.ident(root), "strict": bool(strict), "raised": raised, "ret": ret,
            "postValid": post_valid, "removedValid": removed_valid, "secondRet": second_ret, "second": second_post, "desc": desc}


def w_plans(idx):
    evs = []
    t = G["t"]
    for i in idx:
        p = G["plans"][i]
        Node.store.clear()
        rnd = random.Random(i)
        root = skeleton(p["skeleton"])
        sites = list(walk(root))
        for (site, kind) in sorted(map(tuple, p["plant"])):
            plant(sites[(site - 1) % len(sites)], kind, rnd, t)
        evs.append(record_prune(root, p["strict"], {"plan": p}))
        evs += in_place_variants(lambda: rebuild_plan(p, i, t), p["strict"], {"plan": p}, i)
        has_leaf = any(k == "unknown-leaf" for _s, k in p["plant"])
        # (plans that plant a child the parent's rule lists although it is no element - the C10 findings - run here in ONE
        # canonical form only, non-strict and alone: what prune does with them when the parent pointers are unset is recorded
        # in known_findings.json)
        if (not has_leaf and i % 2 == 0) or (has_leaf and not p["strict"] and len(p["plant"]) == 1):
            evs += setter_variant(lambda: rebuild_plan(p, i, t), p["strict"], {"plan": p}, i, only_none=has_leaf)
    return evs


def rebuild_plan(p, i, t):
    Node.store.clear()
    rnd = random.Random(i)
    root = skeleton(p["skeleton"])
    sites = list(walk(root))
    for (site, kind) in sorted(map(tuple, p["plant"])):
        plant(sites[(site - 1) % len(sites)], kind, rnd, t)
    return root


def in_place_variants(rebuild, strict, desc, i):
    """The same tree pruned below one of its elements, in place (the element keeps its parent and siblings), and pruned
    after being detached with remove_child (the parent pointer still names the old parent)."""
    t = G["t"]
    evs = []
    root = rebuild()
    inner = [n for n in walk(root) if n is not root and n.name in t.node_map and n.children
             and not any(a.name == "metadata" for a in ancestors(n))]
    if inner:
        at = inner[i % len(inner)]
        evs.append(record_prune(root, strict, dict(desc, variant="in place below " + at.name), at=at))
    if i % 2 == 0:
        root = rebuild()
        kids = [c for c in root.children if c.name in t.node_map and c.children]
        if kids:
            c = kids[i % len(kids)]
            root.remove_child(c)
            evs.append(record_prune(c, strict, dict(desc, variant="detached " + c.name + " (parent pointer kept by remove_child)")))
    return evs


def setter_variant(rebuild, strict, desc, i, only_none=False):
    """The same tree with its parent pointers as the `children` setter / list surgery leaves them (None, or naming the node
    the child was moved away from): a tree is its child lists, and prune is told which node to start at."""
    root = rebuild()
    holder = Node("zzFormerParent")
    for k, x in enumerate(list(walk(root))):
        if x is not root:
            x.parent = None if (only_none or (k + i) % 2) else holder
    return [record_prune(root, strict, dict(desc, variant="parent pointers unset / stale (tree assembled through the children property)"))]


def ancestors(n):
    seen = 0
    while n.parent is not None and seen < 10000:
        n = n.parent
        seen += 1
        yield n


PLANT_OPS = ["add-unknown-child", "add-misplaced-child", "rename-unknown", "rename-misplaced", "corrupt-content-class", "corrupt-attr", "add-attr",
             "drop", "duplicate", "graft-under-metadata", "set-content-on-empty", "clear-content", "swap"]


def w_seeded(seeds):
    evs = []
    t = G["t"]
    for seed in seeds:
        Node.store.clear()
        rnd = random.Random(seed)
        if seed % 6 == 0:
            root = valtrace.fixture_root()
            desc = {"base": "fixture", "seed": seed}
        else:
            el = rnd.choice(["eml", "dataset", "dataTable", "methods", "project", "coverage", "creator", "access", "attributeList"])
            g = tables.TreeGen(t, seed, max_depth=5, breadth=rnd.randint(2, 6))
            root = g.gen(el)
            desc = {"base": "generated", "element": el, "seed": seed}
        muts = []
        for _ in range(rnd.choice([1, 1, 2, 3, 5])):
            m = valtrace.mutate(root, rnd, t, PLANT_OPS)
            if m:
                muts.append(m)
        if seed % 40 == 39:
            # hundreds of offending children under one parent, interleaved with allowed ones
            host = rnd.choice([n for n in walk(root) if n.name in t.node_map] or [root])      # (mutations may have renamed every node)
            for i in range(300):
                host.add_child(Node(rnd.choice(["zzJunk", "title", "zzOther", "para"]), content="x"), index=rnd.randint(0, len(host.children)))
            muts.append({"op": "300 mixed children", "at": host.name})
        if root.name not in t.node_map:          # the statement is about trees rooted at a known element
            root.name = "dataset"
        desc["mutations"] = muts
        evs.append(record_prune(root, rnd.random() < 0.5, desc))
    return evs


def run(rep, tier, seed):
    t = tables.get_tables(rep)
    G["t"] = t
    wd = workdir(PID, "mc", wipe=True)
    # the generated RuleTable for TraceEml
    from harness import gen_tables
    gen_tables.write_rule_table(wd)
    cfgp = os.path.join(wd, "plans.cfg")
    open(cfgp, "w").write('SPECIFICATION Spec\nCONSTANTS\n  Which = "prune"\n  Skeletons = {"access", "dataset", "metadata", "metadataRoot", "inline", "interleaved", "eml", "relatedProject"}\n'
                          f'  MaxSites = 6\n  MaxPlant = {1 if tier == "quick" else 2}\n  MaxItems = 1\nINVARIANT Log\n')
    r = run_tlc("MC_Plans", cfg=cfgp, timeout=600)
    if not r.ok:
        raise MachineryError("MC_Plans failed:\n" + r.out[-1500:])
    rep.add_tlc(r, "MC_Plans (prune planting plans)")
    plans = [p["plan"] for p in r.json_lines() if p.get("k") == "PP"]
    if tier == "quick":
        # all single plantings, plus a seeded sample of pairs
        rnd = random.Random(seed)
        kinds = ["unknown-child", "unknown-leaf", "misplaced-known-child", "invalid-content", "invalid-content-not-unicode", "invalid-attribute", "starve-required-child"]
        for _ in range(500):
            a = [rnd.randint(1, 6), rnd.choice(kinds)]
            b = [rnd.randint(1, 6), rnd.choice(kinds)]
            plans.append({"skeleton": rnd.choice(["access", "dataset", "metadata", "metadataRoot", "inline", "eml", "relatedProject"]), "strict": rnd.random() < 0.5, "plant": [a, b]})
    G["plans"] = plans
    evs = [e for chunk in parallel(w_plans, range(len(plans))) for e in chunk]
    nseed = 120 if tier == "quick" else 2500
    evs += [e for chunk in parallel(w_seeded, [seed * 100003 + i for i in range(nseed)]) for e in chunk]
    # very deep trees: a chain of nested sections with offenders planted at the bottom (the quantifier: arbitrary depths)
    import sys as _sys
    from metapype.eml import validate as _v, references as _r, evaluate as _e  # noqa: F401 - imported BEFORE the limit below is raised (import-time constants)
    for depth in ([120, 300, 600] if tier == "quick" else [120, 300, 600, 800]):
        for strict in (False, True):
            Node.store.clear()
            root = Node("abstract")
            cur = root
            for _ in range(depth):
                nxt = Node("section")
                cur.add_child(nxt)
                cur = nxt
            cur.add_child(Node("para", content="bottom"))
            cur.add_child(Node("zzUnknownAtTheBottom"))
            mis = Node("dataset")
            mis.add_child(Node("title", content="misplaced"))
            cur.add_child(mis)
            old = _sys.getrecursionlimit()
            _sys.setrecursionlimit(max(old, 20000))       # the harness's own walks (pi, projections) are recursive too
            try:
                evs.append(record_prune(root, strict, {"base": "very deep chain", "depth": depth, "strict": strict}))
            finally:
                _sys.setrecursionlimit(old)
    strip = lambda e: {k: v for k, v in e.items() if k != "desc"}  # noqa: E731
    rejects, rr = judge_traces([strip(e) for e in evs], PID, module="TraceEml", cfg="TraceValidate.cfg", label="prune", lib=wd, timeout=3000)
    rep.cov["states"] += rr.distinct or 0
    rep.cov["transitions"] += rr.generated or 0
    rep.cov["traces_validated_against_impl"] = len(evs)
    removed_some = sum(1 for e in evs if e["ret"])
    rep.notes.update(plans=len(plans), seeded=nseed, prunes_that_removed_something=removed_some,
                     strict=sum(1 for e in evs if e["strict"]))
    if removed_some == 0:
        raise MachineryError("vacuous: no prune removed anything")
    for rj in rejects:
        e = evs[rj["event"] - 1]
        for cl in rj["clauses"]:
            mode = "strict" if e["strict"] else "non-strict"
            d_ = e.get("desc") or {}
            special = ""
            if "parent pointers unset" in str(d_.get("variant", "")) and any(k == "unknown-leaf" for _s, k in (d_.get("plan") or {}).get("plant", [])):
                # the one input family behind the recorded finding (a child the parent's rule LISTS although it is no element - the
                # C10 findings - in a tree whose parent pointers are unset): its own key, so that nothing else hides behind it
                special = ":rule-listed-non-element:parent-pointers-unset:" + str((d_.get("plan") or {}).get("skeleton"))
            rep.violation(f"{PID}:{mode}:{cl}" + special + (f":{e['raised']}" if cl == "raised" else ""),
                          f"prune({mode}) clause {cl}; case {e['desc']}; returned {e['ret'][:6]}",
                          {"kind": "prune", "desc": e["desc"], "strict": e["strict"], "clause": cl, "pre": e["pre"], "post": e["post"], "ret": e["ret"]})
    rep.sample({"plan": plans[len(plans) // 2]})
    rep.sample({"seeded": evs[-1]["desc"]})
    rep.cov["evaluations"] = len(evs)
    rep.cov["distinct_nontrivial"] = removed_some
    rep.cov["rule"] = "one event per prune call; non-trivial = the prune removed at least one subtree"
    rep.assumptions += ["trees are rooted at a known element", "validate.node outcomes used by the strict clauses are observations of the same implementation (C01-C04 judge them)"]
