"""C01 - child-sequence validation equals the rule's declared content model.

TLC (MC_Dfa) turns every rule's children section into the product automaton of its strict
and lenient reading (Brzozowski derivatives); MC_Words cross-checks the automaton against an
independent declarative membership definition on every word up to a budget.  From TLC's
graph the harness derives, per rule, a W-method conformance suite (state cover x
Sigma^{<=k+1} x characterising set: complete for any finite-state validator with up to k
states more than the automaton) plus all short words, realises each word as a parent element
with those children and runs validate.node in fail-fast and collecting mode.
"""
import itertools
import json
import os
import random

from harness import common
from harness.common import MachineryError, run_tlc, SPEC, workdir, parallel
from harness.c09 import load_log_all
from harness import gen_tables

PID = "C01"
FOREIGN = "~foreign"
FOREIGN_NAME = "zzForeignElement"
ANY = "~any"
G = {}

CHILD_EXC = ("ChildNotAllowedError", "MinOccurrenceUnmetError", "MaxOccurrenceExceededError")
CHILD_CODES = ("CHILD_NOT_ALLOWED", "MIN_OCCURRENCE_UNMET", "MAX_OCCURRENCE_EXCEEDED", "MIN_CHOICE_UNMET", "MAX_CHOICE_EXCEEDED")

SAMPLE_CONTENT = {"strContent": "x", "nonEmptyContent": "x", "intContent": "1", "floatContent": "1.5",
                  "floatRangeContent_EW": "10.0", "floatRangeContent_NS": "10.0", "floatContent_Nonnegative": "1.0",
                  "timeContent": "12:00:00", "yearDateContent": "2020", "uriContent": "http://example.org/x"}


class Dfa:
    def __init__(self, unit):
        self.unit = unit
        self.out = {}      # state -> ACCEPT/REJECT/UNSPEC
        self.delta = {}    # state -> {symbol: state}
        self.init = None
        self.sigma = set()

    def run(self, word):
        s = self.init
        for a in word:
            s = self.delta[s][a]
        return s

    def finish(self):
        self.states = sorted(self.out)
        self.sigma = sorted(self.sigma)
        # state cover: shortest access words
        self.access = {self.init: ()}
        frontier = [self.init]
        while frontier:
            nxt = []
            for s in frontier:
                for a in self.sigma:
                    t = self.delta[s][a]
                    if t not in self.access:
                        self.access[t] = self.access[s] + (a,)
                        nxt.append(t)
            frontier = nxt
        if set(self.access) != set(self.states):
            raise MachineryError(f"DFA of {self.unit}: {len(self.states) - len(self.access)} states unreachable in the log")
        # characterising set: shortest distinguishing suffix for every pair of inequivalent states
        dist = {}
        st = self.states
        for i, p in enumerate(st):
            for q in st[i + 1:]:
                if self.out[p] != self.out[q]:
                    dist[(p, q)] = ()
        changed = True
        while changed:
            changed = False
            for i, p in enumerate(st):
                for q in st[i + 1:]:
                    if (p, q) in dist:
                        continue
                    for a in self.sigma:
                        tp, tq = self.delta[p][a], self.delta[q][a]
                        if tp == tq:
                            continue
                        k = (tp, tq) if tp < tq else (tq, tp)
                        if k in dist:
                            dist[(p, q)] = (a,) + dist[k]
                            changed = True
                            break
        self.W = sorted(set(dist.values()) | {()})
        # number of equivalence classes (size of the minimal automaton)
        classes = []
        for s in st:
            for c in classes:
                r = c[0]
                k = (r, s) if r < s else (s, r)
                if k not in dist:
                    c.append(s)
                    break
            else:
                classes.append([s])
        self.minimal_states = len(classes)


def build_dfas(log):
    dfas = {}
    for s in log["S"]:
        d = dfas.setdefault(s["unit"], Dfa(s["unit"]))
        sid = json.dumps(s["id"], sort_keys=True)
        d.out[sid] = s["out"]
        d.delta.setdefault(sid, {})
        if s["init"]:
            d.init = sid
    for t in log["T"]:
        d = dfas[t["unit"]]
        f = json.dumps(t["from"], sort_keys=True)
        d.delta[f][t["a"]] = json.dumps(t["to"], sort_keys=True)
        d.sigma.add(t["a"])
    for d in dfas.values():
        if d.init is None:
            raise MachineryError(f"no initial state logged for {d.unit}")
        for s in d.out:
            if set(d.delta[s]) != set(d.sigma):
                raise MachineryError(f"DFA of {d.unit} incomplete at a state")
        d.finish()
    return dfas


def live_walks(d, count, rnd, maxlen=14):
    """Random words that stay among states from which ACCEPT is reachable and end accepted."""
    to_acc = {s: () for s in d.states if d.out[s] == "ACCEPT"}       # shortest completion to ACCEPT
    changed = True
    while changed:
        changed = False
        for s in d.states:
            if s in to_acc:
                continue
            best = None
            for a in d.sigma:
                t = d.delta[s][a]
                if t in to_acc and (best is None or len(to_acc[t]) + 1 < len(best)):
                    best = (a,) + to_acc[t]
            if best is not None:
                to_acc[s] = best
                changed = True
    if d.init not in to_acc:
        return []
    words = set()
    for _ in range(count):
        s, w = d.init, ()
        for _ in range(rnd.randint(0, maxlen)):
            opts = [a for a in d.sigma if d.delta[s][a] in to_acc]
            if not opts:
                break
            a = rnd.choice(opts)
            w += (a,)
            s = d.delta[s][a]
        words.add(w + to_acc[s])
        if rnd.random() < 0.3:
            words.add(w)          # the prefix itself (often an unmet minimum)
    return sorted(words)


def pumped_words(d, rnd, count=6, reps=(257, 300, 1000)):
    """Very long words: an accepted (or rejected) walk with one self-loop of the automaton pumped hundreds of times -
    the verdict of a regular language cannot depend on the length, an implementation's can (ints above 256, recursion)."""
    loops = [(s, a) for s in d.states for a in d.sigma if d.delta[s][a] == s and a != FOREIGN and d.out[s] != "REJECT" or
             (d.delta[s][a] == s and a != FOREIGN and any(d.out[t] == "ACCEPT" for t in d.states))]
    loops = [(s, a) for (s, a) in loops if s in d.access]
    words = set()
    rnd.shuffle(loops)
    for (s, a) in loops[:count]:
        pre = d.access[s]
        # shortest completion from s to an accepting state, if any
        frontier, seen, comp = [((), s)], {s}, None
        for _ in range(10):
            nxt = []
            for w, q in frontier:
                if d.out[q] == "ACCEPT":
                    comp = w
                    break
                for b in d.sigma:
                    t = d.delta[q][b]
                    if t not in seen:
                        seen.add(t)
                        nxt.append((w + (b,), t))
            if comp is not None:
                break
            frontier = nxt
        n = rnd.choice(reps)
        words.add(pre + (a,) * n + (comp or ()))
        words.add(pre + (a,) * n)
    return sorted(words)


def suite(d, k, short_len, cap, rnd):
    """W-method suite P.Sigma^{<=k+1}.W plus all words up to short_len (both capped by sampling)."""
    words = set()
    mids = [()]
    layer = [()]
    for _ in range(k + 1):
        layer = [m + (a,) for m in layer for a in d.sigma]
        mids += layer
    for p in d.access.values():
        for m in mids:
            for w in d.W:
                words.add(p + m + w)
    wm = len(words)
    for L in range(short_len + 1):
        if len(d.sigma) ** L > cap:
            break
        for w in itertools.product(d.sigma, repeat=L):
            words.add(w)
    words = sorted(words)
    truncated = False
    if len(words) > cap:
        truncated = True
        words = rnd.sample(words, cap)
    return words, wm, truncated


def parent_for(unit, element, rules):
    """A parent node governed by `unit` with valid attributes and content, no children yet."""
    from metapype.model.node import Node
    if unit == "@metadata":
        return Node("metadata")
    spec = rules[unit]
    p = Node(element if element else "zzNeutralParent")
    for a, v in spec[0].items():
        if v and v[0] is True:
            p.add_attribute(a, v[1] if len(v) > 1 else "v")
    kinds = spec[2].get("content_rules", [])
    content = None
    for kd in ("strContent", "nonEmptyContent"):
        if kd in kinds:
            content = SAMPLE_CONTENT[kd]
    for kd in kinds:                      # a typed kind is more specific than str / non-empty
        if kd in SAMPLE_CONTENT and kd not in ("strContent", "nonEmptyContent"):
            content = SAMPLE_CONTENT[kd]
    if "content_enum" in spec[2]:
        content = spec[2]["content_enum"][0]
    if "emptyContent" in kinds:
        content = None
    p.content = content
    return p


def rule_child_names(children_spec):
    """names occurring in a children section (nested lists [name, min, max] / [[...], ..., min, max])"""
    out = []

    def go(x):
        if isinstance(x, list):
            if x and isinstance(x[0], str):
                out.append(x[0])
            else:
                for y in x:
                    go(y)
    go(children_spec)
    return out


def lookalike_foreign(unit, rules, i):
    """a name the rule does NOT allow that resembles one it allows (namespace-qualified, padded, re-cased, plural)"""
    names = rule_child_names(rules[unit][1]) if unit in rules else []
    if not names:
        return HOSTILE_FOREIGN_NAMES[i % len(HOSTILE_FOREIGN_NAMES)]
    a = names[i % len(names)]
    cand = ["{u}" + a, "x}" + a, "x:" + a, a + " ", " " + a, a.capitalize(), a + "s", a.upper(), a[:-1]][i % 9]
    return cand if cand not in names and cand else HOSTILE_FOREIGN_NAMES[i % len(HOSTILE_FOREIGN_NAMES)]


HOSTILE_FOREIGN_NAMES = ["%s", "{0}", "100%d", "%(name)s", "zz:foreign", " ", "zzForeign\u00e9", "{a.b}", "\\"]      # none is a name of any rule


def realise(unit, element, word, rules, same_id=None, prefix=None, unregister=False):
    """same_id: construct every child with this explicit id (Node(name, id=...) takes any id, also a used one);
    prefix: give every child this namespace prefix (a separate field: the element NAME stays what the rule speaks about);
    unregister: drop the children from the registry again (the registry is not the tree)"""
    from metapype.model.node import Node as _Node

    def Node(nm):
        c = _Node(nm, id=same_id) if same_id else _Node(nm)
        if prefix:
            c.prefix = prefix
            c.add_namespace(prefix, "urn:" + prefix)
        if unregister:
            _Node.store.pop(c.id, None)
        return c
    p = parent_for(unit, element, rules)
    if same_id and isinstance(p.content, str) and p.content and set(rules[unit][2].get("content_rules", [])) <= {"strContent", "nonEmptyContent", "anyContent"} \
            and "content_enum" not in rules[unit][2]:
        # hostile pass: where the rule takes any non-empty text, the parent's own text is whitespace only (an XML import keeps
        # such text) - membership of the child sequence is a matter of the children, not of the parent's text
        p.content = [" ", "\n    ", "\t", "\u00a0 "][len(word) % 4]
    for i, a in enumerate(word):
        if a == FOREIGN:
            nm = (lookalike_foreign(unit, rules, i + len(word)) if (i + len(word)) % 2 else HOSTILE_FOREIGN_NAMES[i % len(HOSTILE_FOREIGN_NAMES)]) if same_id else FOREIGN_NAME
        elif a == ANY:
            nm = ["title", "zzAnything", "dataset"][i % 3]
        else:
            nm = a
        p.add_child(Node(nm))
    if unregister and len(word) % 2 == 1:
        for c in p.children:
            c.parent = None            # hostile pass: children listed but not linked back (the `children` property / list surgery leave it so)
    return p


class CollectingDependsOnEarlierEntries(Exception):
    """Not raised by the library: marks that validating into a list that already holds entries gave a
    different result than validating into an empty list (the statement: every problem is appended)."""


SENTINEL = ("earlier entry",)


def validate_both(unit, element, p, rule_obj=None):
    """Returns (ff, craised, errs): ff = None or exception; craised = exception raised in collecting mode (or
    the marker above); errs = the entries appended to an empty list."""
    from metapype.eml import validate, rule
    def call(errs):
        if rule_obj is not None:
            rule_obj.validate_rule(p, errs)          # a Rule object the caller keeps and reuses (rule.get_rule hands them out)
        elif element or unit == "@metadata":
            validate.node(p, errs)
        else:
            rule.Rule(unit).validate_rule(p, errs)
    from harness.common import deadline
    ff = None
    try:
        with deadline(10):
            call(None)
    except Exception as e:  # noqa: BLE001
        ff = e
    errs = []
    craised = None
    try:
        with deadline(10):
            call(errs)
    except Exception as e:  # noqa: BLE001
        craised = e
    if craised is None:
        errs2 = [SENTINEL]
        try:
            call(errs2)
            if errs2[0] is not SENTINEL or [(e[0], e[2]) for e in errs2[1:]] != [(e[0], e[2]) for e in errs]:
                craised = CollectingDependsOnEarlierEntries(f"empty list -> {[e[0].name for e in errs]}; pre-filled list -> {[e[0].name if e is not SENTINEL else 'SENTINEL' for e in errs2]}")
        except Exception as e:  # noqa: BLE001
            craised = e
    return ff, craised, errs


def forest_errors(parents):
    """Validate several parents in ONE validate.tree walk into ONE list (a neutral root holds them): returns
    (raised, {id(parent): [codes attributed to that parent]}).  The outcome for a parent must not depend on what the
    same walk / the same list saw before it."""
    from metapype.model.node import Node
    from metapype.eml import validate
    root = Node("zzForestRoot")
    for p in parents:
        root.add_child(p)
    errs = []
    try:
        validate.tree(root, errs)
    except Exception as e:  # noqa: BLE001
        return e, {}
    by = {}
    for e in errs:
        by.setdefault(id(e[2]), []).append(e)
    return None, by


def judge(verdict, ff, craised, errs):
    """Clauses of C01 violated by this outcome (list of (clause, exc))."""
    from metapype.eml.exceptions import MetapypeRuleError
    bad = []
    if craised is not None:
        bad.append(("collecting-mode-raised", craised))
    if ff is not None and not isinstance(ff, MetapypeRuleError):
        bad.append(("failfast-non-rule-error", ff))
    if verdict == "ACCEPT":
        if ff is not None and isinstance(ff, MetapypeRuleError):
            bad.append(("valid-sequence-rejected-failfast", ff))
        if craised is None and errs:
            bad.append((f"valid-sequence-rejected-collecting:{errs[0][0].name}", None))
    elif verdict == "REJECT":
        if ff is None:
            bad.append(("invalid-sequence-accepted-failfast", None))
        elif isinstance(ff, MetapypeRuleError) and type(ff).__name__ not in CHILD_EXC:
            bad.append(("invalid-sequence-wrong-error-kind", ff))
        if craised is None:
            if not errs:
                bad.append(("invalid-sequence-accepted-collecting", None))
            else:
                other = [e[0].name for e in errs if e[0].name not in CHILD_CODES]
                if other:
                    bad.append((f"invalid-sequence-wrong-error-code:{other[0]}", None))
    return bad


def w_words(items):
    from metapype.model.node import Node
    out, n = [], 0
    counts = {"ACCEPT": 0, "REJECT": 0, "UNSPEC": 0}
    rules = G["rules"]
    for (unit, element, word) in items:
        d = G["dfas"][unit]
        verdict = d.out[d.run(word)]
        counts[verdict] += 1
        p = realise(unit, element, word, rules)
        if len(word) % 2 == 1 and unit != "@metadata":
            # the parent carries EVERY attribute its rule declares (valid values), not only the required ones: membership of the
            # child sequence is a matter of the children section
            for a_, spec_ in (rules[unit][0] or {}).items():
                if a_ not in p.attributes:
                    p.add_attribute(a_, spec_[1] if len(spec_) > 1 else "v1")
        if len(word) % 2 == 0 and word:
            # the children carry tails (padding an import keeps: NBSP, TAB; text after an inline element): a child SEQUENCE is a
            # sequence of names
            for k_, ch_ in enumerate(p.children):
                ch_.tail = ["\u00a0", "\t", "tail text", None, " ", "\n  "][k_ % 6]
        if len(word) % 3 == 2 and unit != "@metadata":
            # where the parent hangs is not what its rule speaks about: below foreign content of a metadata element, two levels down
            from metapype.model.node import Node as _N
            holder = _N("metadata")
            wrap = _N("zzForeignWrapper")
            holder.add_child(wrap)
            wrap.add_child(p)
        ff, craised, errs = validate_both(unit, element, p)
        Node.store.clear()
        n += 1
        for clause, exc in judge(verdict, ff, craised, errs):
            e = f":{type(exc).__name__}" if exc is not None else ""
            out.append((f"{clause}{e}:{unit}", f"{unit} ({element}) children {list(word)}: verdict {verdict}; fail-fast {ff!r}; collecting raised {craised!r}, codes {[x[0].name for x in errs]}",
                        {"kind": "word", "unit": unit, "element": element, "word": list(word), "verdict": verdict}))
    # the same words again, 12 parents of one rule per validate.tree walk (forward and reversed order): a parent's
    # verdict must not depend on the parents the walk has already seen
    groups = {}
    for (unit, element, word) in items:
        if element and unit != "@metadata":
            groups.setdefault((unit, element), []).append(word)
    for (unit, element), words in groups.items():
        d = G["dfas"][unit]
        # ONE rule object (as handed out by rule.get_rule) validating every word of the group in turn, modes alternating
        from metapype.eml import rule as _rule
        from metapype.eml.exceptions import MetapypeRuleError as _MRE
        try:
            robj = _rule.get_rule(element)
        except Exception:  # noqa: BLE001 - C10's business
            robj = None
        for k, w in enumerate(words if robj is not None else []):
            verdict = d.out[d.run(w)]
            p = realise(unit, element, w, rules)
            errs, raised = [], None
            try:
                robj.validate_rule(p, errs) if k % 2 == 0 else robj.validate_rule(p)
            except Exception as e:  # noqa: BLE001
                raised = e
            Node.store.clear()
            n += 1
            childfam = [e[0].name for e in errs if e[0].name in CHILD_CODES]
            if raised is not None and (k % 2 == 0 or not isinstance(raised, _MRE)):
                out.append((f"reused-rule-object:{'collecting-mode-raised' if k % 2 == 0 else 'failfast-non-rule-error'}:{type(raised).__name__}:{unit}", repr(raised),
                            {"kind": "reused-rule", "unit": unit, "element": element, "word": list(w), "position": k + 1}))
            elif k % 2 == 0 and ((verdict == "ACCEPT" and errs) or (verdict == "REJECT" and not childfam)):
                out.append((f"reused-rule-object:{'valid-sequence-rejected' if verdict == 'ACCEPT' else 'invalid-sequence-accepted'}:{unit}",
                            f"{unit} ({element}) children {list(w)} as node {k + 1} validated by one Rule object: verdict {verdict}, codes {[e[0].name for e in errs]}",
                            {"kind": "reused-rule", "unit": unit, "element": element, "word": list(w), "verdict": verdict, "position": k + 1}))
            elif k % 2 == 1 and ((verdict == "ACCEPT" and raised is not None) or (verdict == "REJECT" and raised is None)):
                out.append((f"reused-rule-object:{'valid-sequence-rejected' if verdict == 'ACCEPT' else 'invalid-sequence-accepted'}-failfast:{unit}",
                            f"{unit} ({element}) children {list(w)} as node {k + 1} validated by one Rule object: verdict {verdict}, fail-fast {raised!r}",
                            {"kind": "reused-rule", "unit": unit, "element": element, "word": list(w), "verdict": verdict, "position": k + 1}))
        for lo in range(0, len(words), 12):
            batch = words[lo:lo + 12]
            for order in (batch, batch[::-1]):
                # (the reversed pass builds every child of every parent with one explicit id: ids are the caller's business)
                hostile = {} if order is batch else {"same_id": "same-id", "prefix": "ns0", "unregister": True}      # ... a prefix, and no registry entry
                parents = [realise(unit, element, w, rules, **hostile) for w in order]
                raised, by = forest_errors(parents)
                Node.store.clear()
                if raised is not None:
                    out.append((f"forest:collecting-mode-raised:{type(raised).__name__}:{unit}", repr(raised), {"kind": "forest", "unit": unit, "element": element, "words": [list(w) for w in order]}))
                    continue
                for w, p in zip(order, parents):
                    verdict = d.out[d.run(w)]
                    codes = [e[0].name for e in by.get(id(p), [])]
                    childfam = [c for c in codes if c in CHILD_CODES]
                    if (verdict == "ACCEPT" and codes) or (verdict == "REJECT" and not childfam):
                        out.append((f"forest:{'valid-sequence-rejected' if verdict == 'ACCEPT' else 'invalid-sequence-accepted'}:{unit}",
                                    f"{unit} ({element}) children {list(w)}: verdict {verdict}, but inside one validate.tree walk over {len(order)} parents of this rule the parent got codes {codes}",
                                    {"kind": "forest", "unit": unit, "element": element, "words": [list(x) for x in order], "word": list(w), "verdict": verdict}))
                n += len(order)
    return n, out, counts


def w_foreign_eml(units):
    """The one foreign name of the model realised by EVERY element name of the vocabulary that the rule does not list
    ("a child that is fine under some other parent"): alone, in the middle of a valid sequence and at its end."""
    from metapype.model.node import Node
    out, n = [], 0
    rules = G["rules"]
    for unit in units:
        d = G["dfas"][unit]
        if ANY in d.sigma or unit == "@metadata" or FOREIGN not in d.sigma:
            continue
        element = G["elem1"].get(unit)
        # shortest non-empty accepted word
        base, frontier, seen = None, [((), d.init)], {d.init}
        for _ in range(8):
            nxt = []
            for w, st in frontier:
                if w and d.out[st] == "ACCEPT":
                    base = w
                    break
                for a in d.sigma:
                    if a != FOREIGN and d.delta[st][a] not in seen:
                        seen.add(d.delta[st][a])
                        nxt.append((w + (a,), d.delta[st][a]))
            if base:
                break
            frontier = nxt
        base = base or ()
        shapes = [(FOREIGN,)] + ([base[:len(base) // 2] + (FOREIGN,) + base[len(base) // 2:], base + (FOREIGN,)] if base else [])
        foreign = [nm for nm in G["vocabulary"] if nm not in d.sigma]
        for nm in foreign:
            for w in shapes:
                verdict = d.out[d.run(w)]
                p = parent_for(unit, element, rules)
                for a in w:
                    p.add_child(Node(nm if a == FOREIGN else a))
                ff, craised, errs = validate_both(unit, element, p)
                Node.store.clear()
                n += 1
                for clause, exc in judge(verdict, ff, craised, errs):
                    e = f":{type(exc).__name__}" if exc is not None else ""
                    shown = [nm if a == FOREIGN else a for a in w]
                    out.append((f"{clause}{e}:{unit}", f"{unit} ({element}) children {shown} ({nm} is not a name of this rule): verdict {verdict}; fail-fast {ff!r}; collecting raised {craised!r}, codes {[x[0].name for x in errs]}",
                                {"kind": "word", "unit": unit, "element": element, "word": shown, "verdict": verdict}))
    return n, out


def w_greedy(idx):
    from metapype.model.node import Node
    ok = bad = 0
    first = None
    rules = G["rules"]
    for i in idx:
        g = G["greedy"][i]
        unit = g["unit"]
        el = G["elem1"].get(unit)
        if unit == "metadataRule":
            el = None
        p = realise(unit, el, g["w"], rules)
        ff, craised, errs = validate_both(unit, el, p)
        Node.store.clear()
        got = [e[0].name for e in errs]
        if craised is None and got == g["errs"]:
            ok += 1
        else:
            bad += 1
            if first is None:
                first = {"unit": unit, "children": g["w"], "predicted": g["errs"], "observed": got, "raised": repr(craised)}
    return ok, bad, first


def prepare(rep, tier, pid=PID, words_budget=None):
    wd = workdir(pid, "mc", wipe=True)
    rules, node_map, implemented, loaded = gen_tables.write_rule_table(wd)
    out = os.path.join(wd, "dfa.out")
    r = run_tlc("MC_Dfa", cfg=os.path.join(SPEC, "MC_Dfa.cfg"), stdout_path=out, timeout=1200, lib=wd)
    if not r.ok or r.invariant_violated:
        raise MachineryError("MC_Dfa failed:\n" + r.out[-1500:])
    rep.add_tlc(r, "MC_Dfa.cfg (product automata of all rules)")
    log = load_log_all(out)
    os.remove(out)
    dfas = build_dfas(log)
    return wd, rules, node_map, dfas


def run(rep, tier, seed):
    from harness.world import Node  # noqa: F401  (imports the working tree)
    wd, rules, node_map, dfas = prepare(rep, tier)
    # cross-check of the two semantics inside the spec
    budget = 3000 if tier == "quick" else 200000
    cfgp = os.path.join(wd, "MC_Words.cfg")
    open(cfgp, "w").write(open(os.path.join(SPEC, "MC_Words.cfg")).read().replace("Budget = 20000", f"Budget = {budget}"))
    rw = run_tlc("MC_Dfa", cfg=cfgp, timeout=2400, lib=wd)
    if not rw.ok or rw.invariant_violated:
        raise MachineryError("SPEC ERROR: derivative automaton and declarative membership disagree (MC_Words):\n" + rw.out[-3000:])
    rep.add_tlc(rw, f"MC_Words.cfg Budget={budget} (derivative == declarative membership on every word)")

    rnd = random.Random(seed)
    elements = {}
    for el, ru in node_map.items():
        elements.setdefault(ru, []).append(el)
    items = []
    per_unit = {}
    for unit, d in sorted(dfas.items()):
        nsig = len(d.sigma)
        if tier == "quick":
            k = 1 if nsig <= 12 else 0
            cap, short_len = 6000, 4
        else:
            k = 2 if nsig <= 6 else 1
            cap, short_len = 150000, 6
        words, wm, trunc = suite(d, k, short_len, cap, rnd)
        lw = live_walks(d, 300 if tier == "quick" else 5000, rnd)
        pw = pumped_words(d, rnd)
        words = sorted(set(words) | set(lw) | set(pw))
        if unit == "@metadata":
            els = ["metadata"]
        else:
            els = [e for e in elements.get(unit, []) if e != "metadata"] or [None]   # the element named metadata is the unit @metadata
            if tier == "quick":
                els = els[:1]
            elif len(els) > 3:
                els = els[:2] + [els[-1]]
        for el in els:
            items += [(unit, el, w) for w in words]
        # the verdict goes by the RULE: every other element name governed by this rule gets the shortest words too (a name that
        # merely resembles a specially treated one - metadataProvider / metadata - must not change it)
        if unit != "@metadata":
            short = sorted(words, key=lambda w: (len(w), w))[:24]
            for el in [e for e in elements.get(unit, []) if e != "metadata" and e not in els]:
                items += [(unit, el, w) for w in short]
        per_unit[unit] = {"automaton_states": len(d.states), "minimal_states": d.minimal_states, "alphabet": nsig,
                          "extra_states_k": k, "W": len(d.W), "suite_words": len(words), "w_method_words": wm, "sampled": trunc, "accepted_random_walks": len(lw), "pumped_long_words": len(pw)}
    rnd.shuffle(items)
    items.sort(key=lambda it: (it[0], str(it[1])))          # a worker gets runs of words of one rule (forest walks need them together)
    G.update(rules=rules, dfas=dfas, elem1={ru: [e for e in els if e != "metadata"][0] for ru, els in elements.items() if [e for e in els if e != "metadata"]})
    res = parallel(w_words, items)
    n = 0
    counts = {"ACCEPT": 0, "REJECT": 0, "UNSPEC": 0}
    for (m, outl, c) in res:
        n += m
        for kk in counts:
            counts[kk] += c[kk]
        for key, det, replay in outl:
            rep.violation(f"{PID}:{key}", det[:600], replay)
    G["vocabulary"] = sorted(set(node_map) | {a for d in dfas.values() for a in d.sigma if a not in (FOREIGN, ANY) and not a.startswith("~")})
    nf = 0
    for (m, outl) in parallel(w_foreign_eml, sorted(dfas), chunk=2):
        nf += m
        for key, det, replay in outl:
            rep.violation(f"{PID}:{key}", det[:600], replay)
    rep.notes["foreign_names_from_the_vocabulary"] = nf
    n += nf
    # Greedy.tla: the transcribed algorithm. (1) bounded theorem on the real table, (2) exact predicted code
    # sequences compared with the code - both reported as information, never as a C01 violation.
    gb = 1000 if tier == "quick" else 30000
    cfgg = os.path.join(wd, "MC_Greedy.cfg")
    open(cfgg, "w").write(open(os.path.join(SPEC, "MC_Greedy.cfg")).read().replace("Budget = 3000", f"Budget = {gb}"))
    outg = os.path.join(wd, "greedy.out")
    rg = run_tlc("Greedy", cfg=cfgg, stdout_path=outg, timeout=2400, lib=wd)
    rep.add_tlc(rg, f"MC_Greedy.cfg Budget={gb} (transcribed greedy matcher decides the regular language where specified)")
    ginfo = {"theorem_GreedyDecidesLanguage": "holds" if (rg.ok and not rg.invariant_violated) else "VIOLATED (see DESIGN 11: information only)"}
    if rg.ok and not rg.invariant_violated:
        Gl = load_log_all(outg).get("G", [])
        rnd2 = random.Random(seed + 1)
        sample = Gl if len(Gl) <= 20000 else rnd2.sample(Gl, 20000)
        G["greedy"] = sample
        res = parallel(w_greedy, range(len(sample)))
        ginfo.update(words_with_predicted_code_sequence=len(sample), exact_sequence_matches=sum(x[0] for x in res),
                     mismatches=sum(x[1] for x in res), first_mismatch=next((x[2] for x in res if x[2]), None))
    if os.path.exists(outg):
        os.remove(outg)
    rep.notes["greedy_transcription"] = ginfo
    if ginfo.get("mismatches"):
        print(f"GREEDY-INFO (not a verdict): {ginfo['mismatches']} collecting-mode code sequences differ from the transcribed algorithm; first: {ginfo['first_mismatch']}")
    rep.notes["words_run_through_validate_node_both_modes"] = n
    rep.notes["verdicts"] = counts
    rep.notes["per_rule"] = per_unit
    if counts["ACCEPT"] == 0 or counts["REJECT"] == 0:
        raise MachineryError(f"vacuous suite: {counts}")
    rep.sample({"unit": items[0][0], "element": items[0][1], "children": list(items[0][2])})
    rep.cov["evaluations"] = n * 2
    rep.cov["distinct_nontrivial"] = n
    rep.cov["rule"] = "distinct (rule, representative element, child-name word) triples; each is a path in TLC's automaton whose end state carries the expected verdict"
    rep.cov["traces_validated_against_impl"] = 0
    rep.assumptions += ["FOREIGN stands for every name outside the rule (the code only tests membership of the name)",
                        "words whose membership depends on whether an alternative matching nothing counts (UNSPEC) are not judged",
                        "rules that fail RuleJson well-formedness are reported under C10, not here"]
