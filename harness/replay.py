"""./check <ID> --replay <file>: re-execute exactly the recorded case against the working tree.

Precise re-execution exists for the spec->code cases whose replay file carries the whole input
(operation histories, words, contents, attribute assignments, insertion cases); for the other
kinds (seeded trace cases) the check is re-run with the recorded tier/seed and the verdict is
whether the same violation key is reported again.  exit 1 + VIOLATION line: it still fails;
exit 0: it no longer fails."""
import json
import sys


def precise(pid, case):
    kind = case.get("kind")
    from harness.world import World, canon, jdump
    if pid in ("C09",) and kind in ("transition", "path", "walk"):
        from harness import c09
        if kind == "transition":
            w = World.build(case["from"])
            return [c for c, d, e in c09.check_step(w, case["op"], case["expected_to"])]
        if "init" in case:
            w = World.build(case["init"])
            bad = []
            for op in case["ops"]:
                ok, ret, exc = w.apply(op["name"], op["args"])
                if ok != op["ok"]:
                    bad.append("raised-unexpectedly" if op["ok"] else "did-not-raise")
                if op["name"] == "shift" and ok and ret != op["ret"]:
                    bad.append("ret")
                if w.parent_links_ok():
                    bad.append("parent-link")
            return bad
    if pid == "C13" and kind == "path":
        from harness import c13
        w = World.build(case["init"])
        st = case["init"]
        bad = []
        for op in case["ops"]:
            before = w.pi(("kids", "ns"))
            ok, ret, exc = w.apply(op["name"], op["args"])
            after = w.pi(("kids", "ns"))
            if not ok:
                bad.append("raised")
                break
            target = op["args"][1] if op["name"] == "add_child" else op["args"][0] if op["name"] in ("add_namespace", "remove_namespace") else None
            inside = c13.desc_ids(after if op["name"] != "remove_child" else before, target) if target else set()
            for i in range(len(after["ns"])):
                if (i + 1) not in inside and before["ns"][i] != after["ns"][i]:
                    bad.append("frame")
        return bad
    if pid in ("C12", "C14") and kind == "history":
        bad = []
        if pid == "C14":
            from harness import c14
            w = World()
            for op in case["ops"][:-1]:
                c14.apply_op(w, op)
            return [c for c, d, e in c14.step(w, case["ops"][-1], case["expected_to"])]
        from harness import c12
        w = c12.build_with_atoms(case["template"])
        for op in case["ops"]:
            ok, ret, exc = w.apply(op["name"], op["args"])
            if not ok:
                return ["raised"]
        return [] if canon(w.pi()) == canon(case["expected_to"]) else ["state"]
    if pid == "C01" and kind == "word":
        from harness import c01, gen_tables
        rules = gen_tables.load_tables()[0]
        p = c01.realise(case["unit"], case["element"], case["word"], rules)
        ff, craised, errs = c01.validate_both(case["unit"], case["element"], p)
        return [c for c, e in c01.judge(case["verdict"], ff, craised, errs)]
    if pid == "C02" and kind == "content":
        from harness import c01, c02, gen_tables
        rules = gen_tables.load_tables()[0]
        p = c01.parent_for(case["unit"], case["element"], rules)
        p.content = case["content"]
        ff, craised, errs = c01.validate_both(case["unit"], case["element"], p)
        from metapype.eml.exceptions import MetapypeRuleError
        # children are not rebuilt here: only content outcomes are judged
        cerrs = [e for e in errs if e[0].name.startswith("CONTENT") or e[0].name == "UNKNOWN_CONTENT_RULE"]
        if ff is not None and not isinstance(ff, MetapypeRuleError):
            return ["failfast-non-rule-error"]
        if craised is not None:
            return ["collecting-mode-raised"]
        if case["verdict"] == "ACCEPT" and cerrs:
            return ["valid-content-rejected"]
        if case["verdict"] == "REJECT" and not cerrs:
            return ["invalid-content-accepted"]
        return []
    if pid == "C17" and kind == "insert":
        from harness import c17, gen_tables
        rules = gen_tables.load_tables()[0]
        k, got = c17.call_index(case["unit"], case.get("element"), case["children"], case["candidate"], rules)
        acc = case.get("acceptable", [])
        if k == "raised":
            return ["raised"]
        if k == "refused":
            return [] if not acc else ["allowed-child-refused"]
        return [] if got in acc else ["not-acceptable"]
    return None


def run(mod, pid, path, tier, seed):
    from harness import common
    rec = json.load(open(path))
    case = rec.get("replay", {})
    print(f"replaying {rec.get('key')}: {rec.get('what', '')[:200]}")
    res = precise(pid, case)
    if res is not None:
        if res:
            print(f"  still fails: {res}")
            print(f"VIOLATION property={pid} replay={path}")
            return 1
        print("  the recorded case no longer fails")
        return 0
    rep = common.Report(pid, tier, seed, level=getattr(mod, "LEVEL", "model_checking"))
    rep_finish = rep.finish
    mod.run(rep, tier, seed)
    hit = [v for v in rep.violations if v.key == rec.get("key")]
    # do not rewrite evidence / replay files from a replay run
    if hit:
        print(f"  still fails: {hit[0].what[:300]}")
        print(f"VIOLATION property={pid} replay={path}")
        return 1
    print("  the check no longer reports this violation key")
    return 0
