"""C16 - reference expansion substitutes independent copies, atomically.

Plans (sequences of <= MaxItems party elements, each a definition or a reference to a same-rule
definition placed before or after it, with or without a trailing role; one dangling reference /
duplicated id at every position, or none) are enumerated by TLC (MC_Plans), realised on a
dataset skeleton, expanded, and judged relationally by TraceEml.tla (ExpandClauses): in-place
substitution by structurally equal fresh copies, sources and every other node unchanged, no
references left, registry exact, validity preserved (observed), copies independent (probed by
editing every copy afterwards), ValueError and an unchanged tree on failure.  The EML fixture
with additional seeded references goes through the same judge.
"""
import os
import random

from harness.common import deadline, MachineryError, run_tlc, SPEC, workdir, parallel, judge_traces
from harness import tables, valtrace
from harness.world import World, Node
from harness.tables import walk

PID = "C16"
G = {}
ALLF = ("name", "kids", "ns", "content", "tail", "prefix", "attrs", "extras", "store")
ORDER = ["creator", "metadataProvider", "associatedParty", "contact"]


def party(el, ident=None, ref=None, rnd=None):
    p = Node(el)
    if ident is not None:
        p.add_attribute("id", ident)
    if ref is not None:
        r = Node("references", content=ref)
        if rnd is not None and rnd.random() < 0.6:
            r.tail = rnd.choice([" ", "\n    ", "tail of the references node"])      # as after from_xml(clean=False) / blank tails kept by clean mode
        p.add_child(r)
    else:
        i = Node("individualName")
        i.add_child(Node("givenName", content="G" + str(ident)))
        i.add_child(Node("surName", content="S" + str(ident)))
        p.add_child(i)
        if rnd is not None and rnd.random() < 0.5:
            p.add_child(Node("electronicMailAddress", content=f"{ident}@example.org"))
        if rnd is not None and rnd.random() < 0.5:
            for c in p.children:
                c.tail = rnd.choice([None, "\n  ", "source-tail"])
    if el == "associatedParty":
        p.add_child(Node("role", content="role-" + str(ident or ref)))
    return p


# distinct ids that differ only in what a tidy-minded matcher might ignore: surrounding blanks, case, a trailing line break
LOOKALIKE_IDS = ["p1", "p1 ", " p1", "P1", "p1\n", "p1.", "p01", "p1\u00a0"]


def ID_OF(k):
    return LOOKALIKE_IDS[(k - 1) % len(LOOKALIKE_IDS)]


def build(plan, fault, rnd):
    items = plan
    ids = {i + 1: ID_OF(i + 1) for i, it in enumerate(items) if it["kind"] in ("def", "def0")}
    if fault[0] == "duplicate-id":
        ids[fault[2]] = ids[fault[1]]
    d = Node("dataset")
    d.add_child(Node("title", content="t"))
    groups = {e: [] for e in ORDER}
    for i, it in enumerate(items):
        k = i + 1
        if it["kind"] == "def0":
            pn = Node(it["el"])                      # a definition that carries the id but has no children at all
            pn.add_attribute("id", ids[k])
            groups[it["el"]].append(pn)
        elif it["kind"] == "def":
            pn = party(it["el"], ident=ids[k], rnd=rnd)
            if fault[0] == "duplicate-id-nested" and fault[1] == k:
                ad = Node("address")
                ad.add_attribute("id", ids[k])
                ad.add_child(Node("city", content="Z"))
                pn.add_child(ad, index=1)
            groups[it["el"]].append(pn)
        else:
            tgt = ids[it["tgt"]]
            if fault[1] == k and fault[0].startswith("dangling"):
                tgt = {"dangling": "id-that-does-not-exist", "dangling-no-text": None, "dangling-empty-text": ""}[fault[0]]
            pr = party(it["el"], ref="placeholder" if tgt is None else tgt, rnd=rnd)
            if tgt is None:
                for r in pr.children:
                    if r.name == "references":
                        r.content = None           # <references/>: names nothing
            groups[it["el"]].append(pr)
    for e in ("creator", "contact"):           # the dataset rule requires one of each
        if not groups[e]:
            groups[e].append(party(e, ident=None, rnd=rnd))
    for e in ORDER:
        for p in groups[e]:
            d.add_child(p)
    return d


def observe_tree_valid(root):
    from metapype.eml import validate
    try:
        validate.tree(root)
        return True
    except Exception:  # noqa: BLE001
        return False


def record_expand(root, desc):
    from metapype.eml import references
    w = World(clear=False)
    w.track_tree(root)
    pre = w.pi(ALLF)
    valid_before = observe_tree_valid(root)
    raised = ""
    try:
        with deadline(20):
            references.expand(root)
    except Exception as e:  # noqa: BLE001
        raised = type(e).__name__
    for x in walk(root):                    # copies made by expand are new nodes
        if id(x) not in w.idx:
            w.track(x)
    post = w.pi(ALLF)
    valid_after = observe_tree_valid(root)
    nold = len(pre["kids"])
    for j, x in enumerate(w.nodes[nold:]):  # probe independence: edit every copy in every container it owns
        x.content = "probe"
        x.tail = "probe"
        x.add_attribute("probe", "1")
        x.add_extras("probe", "1")
        x.add_namespace("pr", "urn:probe")
        x.add_child(Node("probeChild"))          # a copy that shares a child LIST with its source shows up here
    probe = w.pi(ALLF)
    return {"op": "expand", "pre": pre, "post": post, "probe": probe, "root": 1, "raised": raised, "precondition": True,
            "validBefore": valid_before, "validAfter": valid_after, "desc": desc}


def w_plans(idx):
    evs = []
    for i in idx:
        items, fault = G["cases"][i]
        Node.store.clear()
        root = build(items, fault, random.Random(i))
        evs.append(record_expand(root, {"items": items, "fault": fault}))
        if len(G["cases"]) > 4000 and i % 4:
            continue         # a large plan set (thorough tier): the variants below on every fourth plan
        # the same plan on a tree that carries what an XML import leaves behind: a default namespace (key None) next to a prefixed one
        Node.store.clear()
        root = build(items, fault, random.Random(i))
        root.add_namespace(None, "https://eml.ecoinformatics.org/eml-2.2.0")
        root.add_namespace("xsi", "http://www.w3.org/2001/XMLSchema-instance")
        evs.append(record_expand(root, {"items": items, "fault": fault, "namespaces": "default + prefixed, as after from_xml"}))
        # the same plan on a tree whose inner nodes re-declare a prefix of the root with another namespace name, or declare one of
        # their own (as an import of a document with local xmlns: declarations leaves it): a copy carries the bindings of its source
        Node.store.clear()
        root = build(items, fault, random.Random(i))
        root.add_namespace("q", "urn:outer")
        for j, x in enumerate(list(walk(root))):
            if x is not root and j % 3 == 1:
                x.add_namespace("q", "urn:inner%d" % (j % 2))
            elif x is not root and j % 5 == 2:
                x.add_namespace("r%d" % (j % 2), "urn:local")
        evs.append(record_expand(root, {"items": items, "fault": fault, "namespaces": "inner nodes re-declare a prefix of the root / declare their own"}))
        # the same plan with the optional `system` attribute on the references nodes (and on some definitions): a references
        # value names an id - whatever attributes the references node carries
        if i % 2 == 1:
            Node.store.clear()
            root = build(items, fault, random.Random(i))
            for j, x in enumerate(list(walk(root))):
                if x.name == "references":
                    x.add_attribute("system", ["knb", "metapype", ""][j % 3])
                elif x.attributes.get("id") is not None and j % 2:
                    x.add_attribute("system", "metapype")
            evs.append(record_expand(root, {"items": items, "fault": fault, "attributes": "system on references nodes / definitions"}))
        # the same plan on a tree that was a branch of a larger document and was taken out with remove_child (its stale
        # parent pointer still names the old holder): the tree handed to expand is the tree that counts
        if i % 2 == 0:
            Node.store.clear()
            root = build(items, fault, random.Random(i))
            holder = Node("eml")
            other = Node("dataset")
            other.add_child(party("creator", ident=ID_OF(1), rnd=random.Random(i)))       # an unrelated branch that happens to use the same id
            holder.add_child(other)
            holder.add_child(root)
            holder.remove_child(root)
            evs.append(record_expand(root, {"items": items, "fault": fault, "tree": "branch detached from a larger document (stale parent pointer)"}))
        # the same plan with one more element that holds SEVERAL references nodes (to a definition without children and/or to
        # definitions with several children) between children of its own: "in the place of EACH references node"
        defs_ = [k for k, it in enumerate(items) if it["kind"] in ("def", "def0")]
        if defs_ and fault[0] == "none":
            Node.store.clear()
            root = build(items, fault, random.Random(i))
            fam = lambda e: e == "associatedParty"  # noqa: E731 - the referencing element is governed by the same rule as what it references
            el0 = items[defs_[0]]["el"]
            same = [k for k in defs_ if fam(items[k]["el"]) == fam(el0)]
            multi = Node(el0)
            multi.add_child(Node("zzLeading", content="own-first"))
            for j in range(2 + i % 2):
                multi.add_child(Node("references", content=ID_OF(same[(i + j) % len(same)] + 1)))
                if j == 0 and i % 3 == 0:
                    multi.add_child(Node("zzBetween", content="own-between"))
            multi.add_child(Node("zzTrailing", content="own-last"))
            root.add_child(multi)
            evs.append(record_expand(root, {"items": items, "fault": fault, "extra": "one element holding several references nodes between children of its own"}))
        # the same plan inside a complete eml document that holds one more reference below additionalMetadata/metadata
        # (nothing in the statement exempts metadata content: every references node is expanded)
        defs = [k for k, it in enumerate(items) if it["kind"] in ("def", "def0")]
        if defs and fault[0] == "none":
            Node.store.clear()
            ds = build(items, fault, random.Random(i))
            e = Node("eml")
            e.add_attribute("packageId", "p.1.1")
            e.add_attribute("system", "s")
            e.add_child(ds)
            am = Node("additionalMetadata")
            md = Node("metadata")
            wrap = Node("zzWrapper")
            el = items[defs[0]]["el"]
            wrap.add_child(party(el, ref=ID_OF(defs[0] + 1), rnd=random.Random(i)))
            md.add_child(wrap)
            am.add_child(md)
            e.add_child(am)
            evs.append(record_expand(e, {"items": items, "fault": fault, "extra": "one more reference below additionalMetadata/metadata"}))
    return evs


def w_fixture(seeds):
    """The EML fixture with additional references: responsible parties replaced by references to a
    definition of the same rule; optionally one fault."""
    evs = []
    for seed in seeds:
        Node.store.clear()
        rnd = random.Random(seed)
        root = valtrace.fixture_root()
        plain = [n for n in walk(root) if n.name in ("creator", "contact", "metadataProvider", "publisher") and not n.find_child("references")]
        defs = [n for n in plain if "id" in n.attributes]
        if not defs:
            tgt = rnd.choice(plain)
            tgt.add_attribute("id", "fx-1")
            defs = [tgt]
        changed = []
        for n in rnd.sample(plain, min(len(plain), rnd.randint(1, 3))):
            if n in defs or n.find_child("references"):
                continue
            tgt = rnd.choice(defs)
            n.remove_children()
            n.add_child(Node("references", content=tgt.attributes["id"]))
            changed.append(n.name)
        fault = rnd.choice(["none", "none", "dangling", "duplicate-id"])
        if fault == "dangling":
            refs = []
            root.find_all_descendants("references", refs)
            rnd.choice(refs).content = "no-such-id"
        elif fault == "duplicate-id":
            other = rnd.choice([n for n in walk(root) if n not in defs])
            other.add_attribute("id", defs[0].attributes["id"])
        evs.append(record_expand(root, {"base": "fixture", "seed": seed, "made_references": changed, "fault": fault}))
    return evs


def run(rep, tier, seed):
    t = tables.get_tables(rep)
    wd = workdir(PID, "mc", wipe=True)
    from harness import gen_tables
    gen_tables.write_rule_table(wd)
    cfgp = os.path.join(wd, "plans.cfg")
    mi = 3 if tier == "quick" else 4
    open(cfgp, "w").write('SPECIFICATION Spec\nCONSTANTS\n  Which = "expand"\n  Skeletons = {}\n'
                          f'  MaxSites = 1\n  MaxPlant = 1\n  MaxItems = {mi}\nINVARIANT Log\n')
    r = run_tlc("MC_Plans", cfg=cfgp, timeout=1200)
    if not r.ok:
        raise MachineryError("MC_Plans failed:\n" + r.out[-1500:])
    rep.add_tlc(r, f"MC_Plans (expand plans, MaxItems={mi})")
    cases = []
    for p in r.json_lines():
        if p.get("k") == "EP":
            for f in p["faults"]:
                cases.append((p["items"], f))
    if tier == "quick" and len(cases) > 2500:
        rnd = random.Random(seed)
        nofault = [c for c in cases if c[1][0] == "none"]
        faulty = [c for c in cases if c[1][0] != "none"]
        cases = (nofault if len(nofault) <= 2000 else rnd.sample(nofault, 2000)) + rnd.sample(faulty, 500)
    G["cases"] = cases
    nfx = 16 if tier == "quick" else 300
    strip = lambda e: {k: v for k, v in e.items() if k != "desc"}  # noqa: E731
    # in batches: the recorded events (three full states each) of a thorough run do not fit into memory at once
    B = 2500
    nev = ok_runs = fail_runs = valid_before = 0
    for lo in range(0, len(cases), B):
        evs = [e for chunk in parallel(w_plans, range(lo, min(lo + B, len(cases)))) for e in chunk]
        if lo == 0:
            evs += [e for chunk in parallel(w_fixture, [seed * 9973 + i for i in range(nfx)]) for e in chunk]
        rejects, rr = judge_traces([strip(e) for e in evs], PID, module="TraceEml", cfg="TraceValidate.cfg", label="expand", lib=wd, timeout=3000)
        rep.cov["states"] += rr.distinct or 0
        rep.cov["transitions"] += rr.generated or 0
        nev += len(evs)
        ok_runs += sum(1 for e in evs if e["raised"] == "")
        fail_runs += sum(1 for e in evs if e["raised"] != "")
        valid_before += sum(1 for e in evs if e["validBefore"])
        for rj in rejects:
            e = evs[rj["event"] - 1]
            for cl in rj["clauses"]:
                if cl == "HARNESS-precondition":
                    raise MachineryError("expand case outside the statement's precondition")
                rep.violation(f"{PID}:{cl}" + (f":{e['raised']}" if "raised" in cl else ""), f"expand clause {cl}; case {e['desc']}; raised {e['raised']!r}",
                              {"kind": "expand", "desc": e["desc"], "clause": cl, "pre": e["pre"], "post": e["post"]})
        del evs, rejects
    rep.cov["traces_validated_against_impl"] = nev
    with_role = sum(1 for (items, f) in cases if any(it["el"] == "associatedParty" and it["kind"] == "ref" for it in items))
    rep.notes.update(plan_cases=len(cases), fixture_cases=nfx, expansions_succeeded=ok_runs, expansions_refused=fail_runs,
                     plans_with_reference_followed_by_role=with_role, valid_before=valid_before)
    if ok_runs == 0 or fail_runs == 0 or with_role == 0:
        raise MachineryError("vacuous exploration")
    rep.sample({"items": cases[len(cases) // 2][0], "fault": cases[len(cases) // 2][1]})
    rep.cov["evaluations"] = nev
    rep.cov["distinct_nontrivial"] = nev
    rep.cov["rule"] = "one event per expand call; distinct by plan (order of definitions/references, roles) x fault placement"
    rep.assumptions += ["every references value names exactly one element id of an element governed by the same rule that holds no references itself (except for the one planted fault)"]
