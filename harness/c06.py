"""C06 - JSON save/load reproduces the tree exactly.

design level : MC_Codec - on every tree of <= 3 nodes over 8 node variants the format loses
               nothing (De(Ser(t)) = t, stable re-serialisation, legacy carries its four fields,
               Upgrade(SerL(t)) loads as the legacy view).
spec -> code : every such tree is built, saved by the real codecs, the emitted text parsed and
               compared slot by slot with TLC's document, loaded and compared.
code -> spec : larger seeded trees with arbitrary Unicode in every text field (namespace maps
               established through the API so that the statement's precondition holds) go through
               save / load / re-save, legacy save / load, converter upgrade / load; every event is
               judged by TraceCodec.tla.
"""
import ast
import json
import os
import random

from harness.common import MachineryError, run_tlc, SPEC, workdir, parallel, judge_traces, REPO
from harness.c09 import load_log_all
from harness.world import World, Node, Atoms
from harness.tables import walk

PID = "C06"
G = {}
SLOTS8 = ["id", "nsmap", "prefix", "attributes", "extras", "content", "tail", "children"]
SLOTS4 = ["id", "attributes", "content", "children"]


def converter():
    """to_20210209 compiled from the working tree's utils/convert.py without importing the module
    (importing it configures logging and writes convert.log into the repository)."""
    src = open(os.path.join(REPO, "utils", "convert.py")).read()
    mod = ast.parse(src)
    fn = [n for n in mod.body if isinstance(n, ast.FunctionDef) and n.name == "to_20210209"]
    if not fn:
        raise MachineryError("utils/convert.py has no function to_20210209")
    ns = {}
    exec(compile(ast.Module(body=fn, type_ignores=[]), "convert.py", "exec"), ns)  # noqa: S102
    return ns["to_20210209"]


# ------------------------------------------------------------------ generic JSON encoding with atoms
def JA(at, s):
    return {"t": "a", "a": at.atom(s), "s": "", "l": []}


def JK(k):
    return {"t": "k", "a": 0, "s": k, "l": []}


JNULL = {"t": "n", "a": 0, "s": "", "l": []}


def JL(x):
    return {"t": "l", "a": 0, "s": "", "l": x}


def JO(x):
    return {"t": "o", "a": 0, "s": "", "l": x}


def generic(at, v):
    if v is None:
        return JNULL
    if isinstance(v, str):
        return JA(at, v)
    if isinstance(v, list):
        return JL([generic(at, x) for x in v])
    if isinstance(v, dict):
        return JO([JL([JA(at, k), generic(at, x)]) for k, x in v.items()])
    return JA(at, ("<non-string>", repr(v)))


def conv_doc(at, obj, slots):
    """Python JSON value of a saved document -> generic encoding; slot keys become fixed keys only
    where the layout puts them, anything unexpected is encoded generically (and will not match)."""
    if not (isinstance(obj, dict) and len(obj) == 1):
        return generic(at, obj)
    (name, body), = obj.items()
    if not isinstance(body, list):
        return generic(at, obj)
    out = []
    for i, slot in enumerate(body):
        if isinstance(slot, dict) and len(slot) == 1 and list(slot)[0] in slots:
            (k, v), = slot.items()
            if k == "children" and isinstance(v, list):
                val = JL([conv_doc(at, c, slots) for c in v])
            else:
                val = generic(at, v)
            out.append(JO([JL([JK(k), val])]))
        else:
            out.append(generic(at, slot))
    return JO([JL([JA(at, name), JL(out)])])


def tla_doc_to_py(at_text, j):
    """TLC's document (atoms are small ints) -> Python JSON value, atoms mapped to strings."""
    t = j["t"]
    if t == "n":
        return None
    if t == "a":
        return at_text(j["a"])
    if t == "k":
        return j["s"]
    if t == "l":
        return [tla_doc_to_py(at_text, x) for x in j["l"]]
    return {tla_doc_to_py(at_text, p["l"][0]): tla_doc_to_py(at_text, p["l"][1]) for p in j["l"]}


def flat_state(w, at):
    """Projection for the codec: ids and names as atoms, dict-valued fields ordered."""
    N = w.nodes
    return {"id": [at.atom(x.id) for x in N], "name": [at.atom(x.name) for x in N],
            "kids": [[w.ident(c) for c in x.children] for x in N],
            "ns": [[[at.atom(k), at.atom(v)] for k, v in x.nsmap.items()] for x in N],
            "prefix": [at.atom(x.prefix) for x in N], "content": [at.atom(x.content) for x in N], "tail": [at.atom(x.tail) for x in N],
            "attrs": [[[at.atom(k), at.atom(v)] for k, v in x.attributes.items()] for x in N],
            "extras": [[[at.atom(k), at.atom(v)] for k, v in x.extras.items()] for x in N]}


def tracked(root):
    w = World(clear=False)
    w.track_tree(root)
    return w


def links_ok(root):
    return all(c.parent is n for n in walk(root) for c in n.children) and root.parent is None


def registered_ok(root):
    # every id of the tree is retrievable and leads to a node of this tree carrying that id (ids may repeat in a tree)
    nodes = list(walk(root))
    return all(any(Node.get_node_instance(n.id) is m for m in nodes if m.id == n.id) for n in nodes)


def roundtrip_events(root, at, conv, desc):
    """All save/load/legacy/upgrade events for one tree."""
    from metapype.model import metapype_io, mp_io
    evs = []
    w = tracked(root)
    st = flat_state(w, at)
    text1 = metapype_io.to_json(root)
    doc1 = conv_doc(at, json.loads(text1), SLOTS8)
    evs.append({"op": "save", "state": st, "root": 1, "doc": doc1, "desc": desc})
    r2 = metapype_io.from_json(text1)
    w2 = tracked(r2)
    evs.append({"op": "load", "doc": doc1, "state": flat_state(w2, at), "root": 1, "links": links_ok(r2), "registered": registered_ok(r2), "desc": desc})
    text2 = metapype_io.to_json(r2)
    evs.append({"op": "resave", "text1": at.atom(text1), "text2": at.atom(text2), "desc": desc})
    text3 = metapype_io.to_json(root, indent=2)
    evs.append({"op": "save", "state": st, "root": 1, "doc": conv_doc(at, json.loads(text3), SLOTS8), "desc": dict(desc, indent=2)})
    # legacy codec
    textL = mp_io.to_json(root)
    docL = conv_doc(at, json.loads(textL), SLOTS4)
    evs.append({"op": "save_legacy", "state": st, "root": 1, "doc": docL, "desc": desc})
    rL = mp_io.from_json(json.loads(textL))
    wL = tracked(rL)
    evs.append({"op": "load_legacy", "doc": docL, "state": flat_state(wL, at), "root": 1, "links": links_ok(rL), "registered": registered_ok(rL), "desc": desc})
    # bundled converter
    model = json.loads(textL)
    conv(model)
    docU = conv_doc(at, model, SLOTS8)
    evs.append({"op": "upgrade", "docL": docL, "docU": docU, "desc": desc})
    rU = metapype_io.from_json(json.dumps(model))
    wU = tracked(rU)
    evs.append({"op": "load_upgraded", "state": flat_state(wU, at), "root": 1, "orig": st, "origRoot": 1, "desc": desc})
    return evs


# ------------------------------------------------------------------ spec -> code on MC_Codec trees
def build_small(T, text):
    n = Node(text(T["name"]), id="id-" + str(T["id"]))
    for k, v in T["ns"]:
        n.add_namespace(text(k), text(v))
    if T["prefix"]:
        n.prefix = text(T["prefix"])
    for k, v in T["attrs"]:
        n.add_attribute(text(k), text(v))
    for k, v in T["extras"]:
        n.add_extras(text(k), text(v))
    n.content = text(T["content"]) if T["content"] else None
    n.tail = text(T["tail"]) if T["tail"] else None
    for c in T["kids"]:
        n.add_child(build_small(c, text))
    return n


def w_small(idx):
    from metapype.model import metapype_io, mp_io
    out, n = [], 0
    conv = converter()
    for i in idx:
        Kd = G["K"][i]
        Node.store.clear()
        text = lambda a: None if a == 0 else (f"id-{a}" if a >= 10 else f"text-{a}")  # noqa: E731
        root = build_small(Kd["tree"], lambda a: f"text-{a}")
        n += 1
        replay = {"kind": "small-tree", "tree": Kd["tree"]}
        try:
            got = json.loads(metapype_io.to_json(root))
            want = tla_doc_to_py(text, Kd["doc"])
            if got != want or json.dumps(got) != json.dumps(want):
                out.append(("save:layout", f"emitted {json.dumps(got)[:300]} expected {json.dumps(want)[:300]}", replay))
            r2 = metapype_io.from_json(json.dumps(want))
            if json.loads(metapype_io.to_json(r2)) != want or not links_ok(r2) or not registered_ok(r2):
                out.append(("load:tree-differs", f"loading TLC's document and saving again gives {metapype_io.to_json(r2)[:300]}", replay))
            gotL = json.loads(mp_io.to_json(root))
            wantL = tla_doc_to_py(text, Kd["docL"])
            if gotL != wantL or json.dumps(gotL) != json.dumps(wantL):
                out.append(("save_legacy:layout", f"emitted {json.dumps(gotL)[:300]} expected {json.dumps(wantL)[:300]}", replay))
            m = json.loads(json.dumps(wantL))
            conv(m)
            wantU = tla_doc_to_py(text, Kd["docU"])
            if m != wantU or json.dumps(m) != json.dumps(wantU):
                out.append(("upgrade:converter-output-differs", f"converter gives {json.dumps(m)[:300]} expected {json.dumps(wantU)[:300]}", replay))
        except Exception as e:  # noqa: BLE001
            out.append((f"raised:{type(e).__name__}", repr(e), replay))
    return n, out


# ------------------------------------------------------------------ code -> spec on large random trees
POOL = ["", " ", "a", "ä", "漢字", "😀", "\ud800", "a\"b\\c", "<&>", "\n\t", "\x00", "x" * 40, "null", "0", "{}", "[]", "é́", " ",
        # text that looks like JSON syntax (a loader that tidies the RAW text would reach inside string literals)
        "[A, B, C, ]", "{\"reps\": 5,}", " ,}", ",]", "\",", "\\\"", "// c", "/* c */", "\\u0041", "NaN", "Infinity", "\\n", "{\"a\": [1, 2,], }", "'single'", "\t,\t]",
        "true", "1e999", "-0", "\u2028", "\ufeff", "a\r\nb", "\r\n", "\r", "\n\r", "line1\r\nline2\r\n", "\x0b\x0c", "\x85"]


def rtext(rnd):
    if rnd.random() < 0.5:
        return rnd.choice(POOL)
    return "".join(chr(rnd.choice([rnd.randint(32, 126), rnd.randint(160, 0x2FF), rnd.randint(0x4E00, 0x4E40), rnd.randint(0x1F600, 0x1F640)]))
                   for _ in range(rnd.randint(0, 12)))


# ids the caller chose: things that LOOK like something a loader might want to tidy (UUID spellings, numbers, null, blanks)
HOSTILE_IDS = ["5D41402A-BC4B-2A76-B971-9D911017C592", "5d41402abc4b2a76b9719d911017c592", "{5d41402a-bc4b-2a76-b971-9d911017c592}",
               "urn:uuid:5d41402a-bc4b-2a76-b971-9d911017c592", "", " ", "None", "null", "0", "007", "1e3", "id with spaces", " padded ", "\u00e9\u6f22", "a" * 300,
               "true", "-1", "{}", "[]", "a/b", "x:y"]


def random_tree(rnd, size):
    root = Node(rtext(rnd) or "r", id=rnd.choice(HOSTILE_IDS)) if rnd.random() < 0.3 else Node(rtext(rnd) or "r")
    nodes = [root]
    prefixes = [rtext(rnd) or "p" for _ in range(4)]
    for _ in range(size - 1):
        p = rnd.choice(nodes)
        # now and then a node that carries the id of another node of the tree (nothing forbids it; save/load must keep both)
        c = Node(rtext(rnd) or "n", id=rnd.choice(nodes).id) if rnd.random() < 0.04 else Node(rtext(rnd) or "n")
        if rnd.random() < 0.15:
            c = Node(c.name, id=rnd.choice(HOSTILE_IDS))
        if rnd.random() < 0.3:
            c.add_namespace(rnd.choice(prefixes), rtext(rnd))
        p.add_child(c, index=rnd.randint(0, len(p.children)))      # attach establishes the prefix-inclusion invariant
        nodes.append(c)
    for n in nodes:
        if rnd.random() < 0.5:
            n.content = rtext(rnd)
        if rnd.random() < 0.3:
            n.tail = rtext(rnd)
        if rnd.random() < 0.3 and n.nsmap:
            n.prefix = rnd.choice(list(n.nsmap))
        elif rnd.random() < 0.1:
            n.prefix = rtext(rnd) or "undeclared"       # nothing says a node's prefix must be declared in its own map
        for _ in range(rnd.choice([0, 0, 1, 2, 3])):
            n.add_attribute(rtext(rnd), rtext(rnd))
        for _ in range(rnd.choice([0, 0, 1, 2])):
            n.add_extras(rtext(rnd), rtext(rnd))
        if rnd.random() < 0.2:
            n.add_namespace(rnd.choice(prefixes), rtext(rnd))       # declared after attach: pushed down the subtree
    return root


def big_tree(rnd):
    """hundreds of children under one parent (sizes above 256), and a chain 12 deep"""
    root = Node("wide")
    root.add_namespace("p", "urn:p")
    for i in range(rnd.choice([257, 300])):
        c = Node(f"c{i % 7}", content=rtext(rnd) if i % 5 == 0 else None)
        if i % 50 == 0:
            c.add_attribute("k", rtext(rnd))
        root.add_child(c)
    cur = root.children[-1]
    for i in range(12):      # deeper documents nest beyond what pickle / TLC's JSON reader handle; depth is C04's business
        nx = Node("deep", content=str(i) if i % 9 == 0 else None)
        cur.add_child(nx)
        cur = nx
    return root


# bindings the XML world knows by heart: a codec has no business treating any (prefix, URI) pair as special
WELL_KNOWN = [("xml", "http://www.w3.org/XML/1998/namespace"), ("xml", "urn:not-the-xml-namespace"), ("x", "http://www.w3.org/XML/1998/namespace"),
              ("xmlns", "http://www.w3.org/2000/xmlns/"), ("xsi", "http://www.w3.org/2001/XMLSchema-instance"), ("xs", "http://www.w3.org/2001/XMLSchema"),
              ("eml", "https://eml.ecoinformatics.org/eml-2.2.0"), ("eml", "eml://ecoinformatics.org/eml-2.1.1"), ("stmml", "http://www.xml-cml.org/schema/stmml-1.2"),
              ("", "urn:empty-prefix"), ("p", ""), ("None", "urn:n"), ("null", "urn:n"), ("nsmap", "nsmap"), ("id", "id")]


def w_bindings(idx):
    evs = []
    conv = converter()
    for i in idx:
        pfx, uri = WELL_KNOWN[i // 3]
        how = ["add_namespace", "nsmap setter, one map object per node", "nsmap setter, one shared map object"][i % 3]
        Node.store.clear()
        root = Node("r")
        a, b = Node("a", content="t"), Node("b")
        g = Node("g", content="u")
        root.add_child(a)
        root.add_child(b)
        b.add_child(g)
        # names that LOOK qualified - by a declared prefix, an undeclared one, an empty one: a name is a string, nothing to split
        odd = [Node(nm) for nm in (pfx + ":unitList", "q:local", "undeclared:local", ":x", "x:", "q:a:b", "{urn:q}clark")]
        for o in odd:
            b.add_child(o)
        nodes = [root, a, b, g] + odd
        if i % 3 == 0:
            root.add_namespace("q", "urn:q")
            root.add_namespace(pfx, uri)
        else:
            shared = {"q": "urn:q", pfx: uri}
            for n in nodes:
                n.nsmap = shared if i % 3 == 2 else dict(shared)
        g.prefix = pfx
        a.add_extras("{" + uri + "}k", "v")
        a.add_attribute(pfx + ":k", "v")
        at = Atoms()
        evs += roundtrip_events(root, at, conv, {"binding": [pfx, uri], "established_by": how})
    return evs


def w_random(seeds):
    import sys
    sys.setrecursionlimit(10000)          # results with deeply nested documents are pickled back to the parent
    evs = []
    conv = converter()
    for seed in seeds:
        Node.store.clear()
        rnd = random.Random(seed)
        at = Atoms()
        root = big_tree(rnd) if seed % 60 == 59 else random_tree(rnd, rnd.randint(1, 40))
        how = {"seed": seed}
        if seed % 4 == 1 and seed % 60 != 59:
            # a tree is its child lists: stored parent pointers that name some OTHER node (a subtree attached to a second document,
            # a node moved without remove_child) are not part of what is saved
            allnodes = tracked(root).nodes
            for k, x in enumerate(allnodes):
                if x is not root and k % 3 == 0:
                    x.parent = allnodes[(k + 1) % len(allnodes)] if allnodes[(k + 1) % len(allnodes)] is not x else root
            how["parent_pointers"] = "every third node names another node as its parent"
        for e in roundtrip_events(root, at, conv, how):
            evs.append(e)
        # "any tree": also the subtree of an inner node, saved while it hangs in the larger model (its parent link set, a
        # tail of its own), and the same node after remove_child (the parent pointer stays behind)
        inner = [x for x in tracked(root).nodes if x is not root and x.parent is not None]
        if inner and seed % 60 != 59:
            x = inner[seed % len(inner)]
            if x.tail is None:
                x.tail = rtext(rnd) or " tail "
            evs += roundtrip_events(x, Atoms(), conv, {"seed": seed, "saved": "inner node, attached"})
            y = inner[(seed // 7) % len(inner)]
            if y.tail is None:
                y.tail = "\n  "
            if y in y.parent.children:
                y.parent.remove_child(y)
                evs += roundtrip_events(y, Atoms(), conv, {"seed": seed, "saved": "inner node, detached with remove_child"})
    return evs


def run(rep, tier, seed):
    wd = workdir(PID, "mc", wipe=True)
    out = os.path.join(wd, "codec.out")
    r = run_tlc("MC_Codec", cfg=os.path.join(SPEC, "MC_Codec.cfg"), stdout_path=out, timeout=1200)
    if r.invariant_violated:
        raise MachineryError("SPEC ERROR: Codec.tla violates its own round-trip invariants:\n" + r.out[-2000:])
    if not r.ok:
        raise MachineryError("MC_Codec failed:\n" + r.out[-2000:])
    rep.add_tlc(r, "MC_Codec.cfg (De(Ser(t)) = t, stable, legacy, upgrade on all small trees)")
    Kd = load_log_all(out)["K"]
    os.remove(out)
    G["K"] = Kd
    nS = 0
    for n, outl in parallel(w_small, range(len(Kd))):
        nS += n
        for key, det, replay in outl:
            rep.violation(f"{PID}:{key}", det[:500], replay)
    rep.notes["small_trees_replayed"] = nS
    ntr = 150 if tier == "quick" else 4000
    evs = [e for chunk in parallel(w_random, [seed * 15485863 + i for i in range(ntr)]) for e in chunk]
    evs += [e for chunk in parallel(w_bindings, range(3 * len(WELL_KNOWN))) for e in chunk]
    strip = lambda e: {k: v for k, v in e.items() if k != "desc"}  # noqa: E731
    rejects, rr = judge_traces([strip(e) for e in evs], PID, module="TraceCodec", cfg="TraceValidate.cfg", label="codec", timeout=3000)
    rep.cov["states"] += rr.distinct or 0
    rep.cov["transitions"] += rr.generated or 0
    rep.cov["traces_validated_against_impl"] = ntr
    for rj in rejects:
        e = evs[rj["event"] - 1]
        for cl in rj["clauses"]:
            rep.violation(f"{PID}:{e['op']}:{cl}", f"codec event {e['op']} rejected ({cl}); case {e['desc']}", {"kind": "codec", "desc": e["desc"], "op": e["op"], "clause": cl})
    rep.notes["codec_events_judged"] = len(evs)
    rep.sample({"small_tree": Kd[len(Kd) // 2]["tree"]})
    rep.cov["evaluations"] = nS + len(evs)
    rep.cov["distinct_nontrivial"] = nS + ntr
    rep.cov["rule"] = "distinct trees: all small trees of MC_Codec plus seeded random trees (1-40 nodes, arbitrary Unicode incl. lone surrogates, empty strings, control characters in every text field)"
    rep.assumptions += ["namespace prefixes of a child include its parent's (established through add_child / add_namespace, as every import and attach does)",
                        "attribute / extras / namespace values are strings; ids are reproduced on load (the registry is re-pointed on purpose)"]
