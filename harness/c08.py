"""C08 - XML import mirrors the document; import-export-import is stable.

code -> spec: every document is parsed by an independent non-namespace-aware parser (expat:
names and xmlns:* attributes as written) and imported by metapype_io.from_xml in all four
clean/collapse combinations with several literals tuples; TraceXml.tla recomputes namespace
scoping from the raw declarations and judges the imported tree (Xml!Corr + Text!Clean), then the
tree is exported and imported again and must be the same tree up to the whitespace policy.
Documents: (a) exhaustive - every string over {SP,TAB,LF,NBSP,a,b} up to a length bound as text
and tail of a (literal and non-literal) element; (b) seeded documents with prefixed namespace
declarations incl. re-declaration in subtrees, xml:-prefixed and other qualified attributes,
entities, CDATA, comments strictly between tags.
"""
import itertools
import random

from harness.common import MachineryError, run_tlc, SPEC, parallel, judge_traces
from harness.world import Node
from harness import xmlobs
import os

PID = "C08"
ALPH = [" ", "\t", "\n", "\xa0", "a", "b"]
MODES = [("raw", False, False), ("clean", True, False), ("collapse", True, True), ("raw", False, True)]
# XML names are more than \w+: hyphen, dot, underscore, digits inside (ASCII only: names travel to TLC as strings)
NAMES = ["a", "b", "item", "para", "literalLayout", "title", "data-set", "unit.type", "x_1", "n2", "_u", "A.B-c_d", "a-"]
PREFIXES = ["p", "q", "eml", "my-ns", "p.q"]
URIS = ["urn:one", "urn:two", "http://example.org/ns#x"]


def esc_text(s, rnd=None):
    out = s.replace("&", "&amp;").replace("<", "&lt;").replace(">", "&gt;")
    return out


def esc_attr(s):
    return s.replace("&", "&amp;").replace("<", "&lt;").replace('"', "&quot;").replace("\t", "&#9;").replace("\n", "&#10;").replace("\r", "&#13;")


def rtext(rnd):
    if rnd.random() < 0.25:
        return "".join(rnd.choice([" ", "\t", "\n", " "]) for _ in range(rnd.randint(1, 4)))
    parts = []
    for _ in range(rnd.randint(1, 4)):
        parts.append(rnd.choice(["", " ", "\n  ", "\t"]))
        parts.append(rnd.choice(["x", "word", "a&b", "1<2", "é漢", "]]>", "'q\"", "two words", "ü",
                                "e\u0301", "A\u030a", "\u212b", "\u2126", "\u1100\u1161", "\ufb01", "\u0958", "\u200b", "\ufeff",
                                "&amp;", "&lt;", "x &gt; 0 &amp;&amp; y", "&#38;", "&quot;", "&amp;amp;"]))       # text that SPELLS a reference (written as &amp;amp; ...)
    parts.append(rnd.choice(["", " ", "\n"]))
    return "".join(parts)


def rdoc(rnd, depth, scope, top=False):
    """returns XML text of an element; scope: dict prefix->uri in scope (to pick usable prefixes)"""
    decls = {}
    if top or rnd.random() < 0.3:
        for _ in range(rnd.randint(1 if top else 0, 2)):
            decls[rnd.choice(PREFIXES)] = rnd.choice(URIS)         # may re-declare an outer prefix with another URI
    sc = dict(scope)
    sc.update(decls)
    pfx = rnd.choice([""] + list(sc)) if sc and rnd.random() < 0.4 else ""
    name = (pfx + ":" if pfx else "") + rnd.choice(NAMES)
    attrs = [f'xmlns:{k}="{esc_attr(v)}"' for k, v in decls.items()]
    used = set()
    for _ in range(rnd.choice([0, 0, 1, 2, 3])):
        kind = rnd.random()
        if kind < 0.5:
            an = rnd.choice(["id", "scope", "system", "n", "plain-attr", "a.b", "_x"])
        elif kind < 0.7:
            an = "xml:" + rnd.choice(["lang", "space"])
        elif sc:
            an = rnd.choice(list(sc)) + ":" + rnd.choice(["type", "ref", "n", "scale-factor", "ref.id", "_y"])
        else:
            continue
        # one attribute per (expanded) name: two prefixes may be bound to one URI, so keep local names unique
        if an in used or (":" in an and an.split(":", 1)[1] in used):
            continue
        used.add(an)
        if ":" in an:
            used.add(an.split(":", 1)[1])
        val = rnd.choice(["v", "a b", "x&y", "<tag>", "q\"uote", "é", "", " padded ", "http://u/x?a=1&b=2",
                          "x\ny", "tab\there", "cr\rlf\r\n", "\n", " \t "])       # line breaks and tabs (written as character references: they are part of the value)
        if an == "xml:space" or (an.endswith(":type") and rnd.random() < 0.3):
            val = rnd.choice(["preserve", "default", "preserve"])      # attribute values that MEAN something to XML tools; the import policy goes by `literals` alone
        attrs.append(f'{an}="{esc_attr(val)}"')
    if rnd.random() < 0.5:
        rnd.shuffle(attrs)
    s = "<" + name + "".join(" " + a for a in attrs) + ">"
    nk = rnd.choice([0, 0, 1, 2, 3]) if depth < 4 else 0
    prev_text = False
    for i in range(nk + 1):
        if rnd.random() < 0.6:
            t = rtext(rnd)
            if rnd.random() < 0.2 and "]]>" not in t:
                s += "<![CDATA[" + t + "]]>"
            else:
                s += esc_text(t)
            prev_text = True
        else:
            prev_text = False
        if i < nk:
            if not prev_text and rnd.random() < 0.3:
                s += "<!-- a comment -->"          # strictly between tags: no character data next to it
                s += rdoc(rnd, depth + 1, sc)
            else:
                s += rdoc(rnd, depth + 1, sc)
    return s + "</" + name + ">"


def record_import(doc, mode, clean, collapse, lits, desc, reimport=True):
    from metapype.model import metapype_io
    evs = []
    raw = xmlobs.raw_split(xmlobs.parse_raw(doc))
    spec_mode = "raw" if not clean else ("collapse" if collapse else "clean")
    try:
        root = metapype_io.from_xml(doc, clean=clean, collapse=collapse, literals=lits)
    except Exception as e:  # noqa: BLE001
        return [{"op": "failed", "raised": type(e).__name__, "stage": "import", "desc": desc}]
    t1 = xmlobs.tree_proj(root)
    evs.append({"op": "import", "mode": spec_mode, "lits": list(lits), "raw": raw, "tree": t1, "desc": desc})
    if reimport:
        try:
            text = metapype_io.to_xml(root)
            root2 = metapype_io.from_xml(text, clean=clean, collapse=collapse, literals=lits)
            evs.append({"op": "same", "t1": t1, "t2": xmlobs.tree_proj(root2), "desc": dict(desc, stage="import-export-import")})
        except Exception as e:  # noqa: BLE001
            evs.append({"op": "failed", "raised": type(e).__name__, "stage": "export-import", "desc": desc})
    Node.store.clear()
    return evs


def w_exhaustive(strings):
    evs = []
    for s in strings:
        for (m, clean, collapse) in MODES[:3]:
            for lits in ((), ("x",)):
                doc = "<r><x>" + esc_text(s) + "</x>" + esc_text(s) + "<y/></r>"
                evs += record_import(doc, m, clean, collapse, lits, {"kind": "exhaustive", "text": s, "clean": clean, "collapse": collapse, "lits": list(lits)},
                                     reimport=False)
                if len(s) <= 3 and not lits:
                    # the same text below an element that SAYS xml:space="preserve": the import policy goes by `literals` alone
                    doc2 = '<r><x xml:space="preserve">' + esc_text(s) + "</x>" + esc_text(s) + '<y xml:space="default"/></r>'
                    evs += record_import(doc2, m, clean, collapse, lits, {"kind": "exhaustive", "text": s, "clean": clean, "collapse": collapse, "lits": [], "xml_space": "preserve"},
                                         reimport=False)
    return evs


def record_legacy(doc, desc):
    """mp_io.from_xml, the legacy importer (information only)."""
    from metapype.model import mp_io
    try:
        root = mp_io.from_xml(doc)
    except Exception as e:  # noqa: BLE001
        return [{"op": "failed", "raised": type(e).__name__, "stage": "legacy-import", "desc": desc}]
    ev = {"op": "import_legacy", "raw": xmlobs.raw_split(xmlobs.parse_raw(doc)), "tree": xmlobs.tree_proj(root), "desc": dict(desc, stage="legacy-import")}
    Node.store.clear()
    return [ev]


# namespace names the XML world knows by heart, under prefixes it does not expect - and the prefixes it expects bound to
# something else: a prefix means what the document declares, nothing more (only `xml` is reserved)
WELL_KNOWN_URIS = ["http://www.w3.org/2001/XMLSchema-instance", "http://www.w3.org/2001/XMLSchema", "https://eml.ecoinformatics.org/eml-2.2.0",
                   "eml://ecoinformatics.org/eml-2.1.1", "http://www.xml-cml.org/schema/stmml-1.2", "http://www.w3.org/1999/xhtml", "http://www.w3.org/1999/XSL/Transform",
                   "http://purl.org/dc/terms/", "urn:other"]
CONVENTIONAL = ["xsi", "xs", "eml", "stmml", "xhtml", "xsl", "dc", "s", "p"]


def w_wellknown(idx):
    evs = []
    for i in idx:
        uri = WELL_KNOWN_URIS[i // len(CONVENTIONAL) % len(WELL_KNOWN_URIS)]
        pfx = CONVENTIONAL[i % len(CONVENTIONAL)]
        other = CONVENTIONAL[(i + 3) % len(CONVENTIONAL)]
        m, clean, collapse = MODES[i % len(MODES)]
        shape = i // (len(CONVENTIONAL) * len(WELL_KNOWN_URIS))
        if shape == 0:      # declared on the root, used by an attribute of the root and by a nested element and attribute
            doc = (f'<d:doc xmlns:d="urn:doc" xmlns:{pfx}="{uri}" {pfx}:schemaLocation="a b" {pfx}:type="t"><x {pfx}:nil="true">t</x>'
                   f'<{pfx}:inner {pfx}:lang="en" xml:lang="de">u</{pfx}:inner></d:doc>')
        else:               # declared on an inner element only, and re-declared below it under another prefix
            doc = (f'<doc><part xmlns:{pfx}="{uri}" {pfx}:type="t"><q xmlns:{other}="{uri}" {other}:ref="r" {pfx}:ref2="r2">t</q>'
                   f'<r xmlns:{pfx}="urn:rebound" {pfx}:type="t2"/></part><after/></doc>')
        evs += record_import(doc, m, clean, collapse, (), {"kind": "well-known", "uri": uri, "prefix": pfx, "shape": shape, "clean": clean, "collapse": collapse, "lits": []})
    return evs


def w_long(idx):
    """Texts and tails with MANY whitespace runs (a line-wrapped paragraph): the policy applies to the whole text, not to its
    first few dozen runs."""
    evs = []
    for i in idx:
        nwords = [33, 34, 40, 70, 130, 300][i % 6]
        sep = [" \n   ", "  ", "\t", " \u00a0 "[1:-1] + " ", "\n"][i % 5]
        text = sep.join("w%d" % k for k in range(nwords))
        m, clean, collapse = MODES[i % len(MODES)]
        doc = "<r><x>" + esc_text(text) + "</x>" + esc_text(" " + text + " ") + "<y>" + esc_text(text.replace("w", "v")) + "</y></r>"
        evs += record_import(doc, m, clean, collapse, ("y",) if i % 2 else (), {"kind": "long", "words": nwords, "separator": sep, "clean": clean, "collapse": collapse, "lits": ["y"] if i % 2 else []})
    return evs


def w_seeded(seeds):
    evs = []
    for seed in seeds:
        rnd = random.Random(seed)
        doc = rdoc(rnd, 0, {}, top=True)
        if seed % 3 == 0:
            evs += record_legacy(doc, {"kind": "seeded", "seed": seed})
        if rnd.random() < 0.3:
            doc = '<?xml version="1.0" encoding="UTF-8"?>\n<!-- leading comment -->\n' + doc + "\n"
        m, clean, collapse = rnd.choice(MODES)
        lits = rnd.choice([(), ("para",), ("literalLayout", "title"), ("a", "b", "item")])
        evs += record_import(doc, m, clean, collapse, lits, {"kind": "seeded", "seed": seed, "clean": clean, "collapse": collapse, "lits": list(lits)})
    return evs


def run(rep, tier, seed):
    r = run_tlc("MC_Text", cfg=os.path.join(SPEC, "MC_Text.cfg"), timeout=900)
    if r.invariant_violated or not r.ok:
        raise MachineryError("SPEC ERROR: Text.tla violates its own properties (MC_Text):\n" + r.out[-2000:])
    rep.add_tlc(r, "MC_Text.cfg (Clean idempotent and word-preserving on all strings <= 6)")
    maxlen = 4 if tier == "quick" else 5
    strings = ["".join(t) for L in range(maxlen + 1) for t in itertools.product(ALPH, repeat=L)]
    evs = [e for chunk in parallel(w_exhaustive, strings) for e in chunk]
    nx = 500 if tier == "quick" else 15000
    evs += [e for chunk in parallel(w_seeded, [seed * 2750159 + i for i in range(nx)]) for e in chunk]
    evs += [e for chunk in parallel(w_long, range(60)) for e in chunk]
    evs += [e for chunk in parallel(w_wellknown, range(2 * len(CONVENTIONAL) * len(WELL_KNOWN_URIS))) for e in chunk]
    judged = [e for e in evs if e["op"] != "failed"]
    legacy_info = []
    for e in evs:
        if e["op"] == "failed" and e["stage"] == "legacy-import":
            legacy_info.append(f"raised {e['raised']} on {e['desc']}")
            continue
        if e["op"] == "failed":
            rep.violation(f"{PID}:{e['stage']}:raised:{e['raised']}", f"{e['stage']} raised {e['raised']}; case {e['desc']}", {"kind": "import", "desc": e["desc"]})
    strip = lambda e: {k: v for k, v in e.items() if k != "desc"}  # noqa: E731
    rejects, rr = judge_traces([strip(e) for e in judged], PID, module="TraceXml", cfg="TraceValidate.cfg", label="import", timeout=3000)
    rep.cov["states"] += rr.distinct or 0
    rep.cov["transitions"] += rr.generated or 0
    rep.cov["traces_validated_against_impl"] = len(judged)
    for rj in rejects:
        e = judged[rj["event"] - 1]
        if e["op"] == "import_legacy":
            legacy_info.append(f"{rj['clauses']} on {e['desc']}")
            continue
        for cl in rj["clauses"]:
            stage = e["desc"].get("stage", "import")
            mode = "raw" if not e["desc"].get("clean") else ("collapse" if e["desc"].get("collapse") else "clean")
            rep.violation(f"{PID}:{stage}:{cl}:{mode}" + (":literal" if e["desc"].get("lits") and e["desc"]["kind"] == "exhaustive" else ""),
                          f"{stage} clause {cl}; case {ascii(e['desc'])}", {"kind": "import", "desc": e["desc"], "clause": cl})
    rep.notes.update(exhaustive_texts=len(strings), seeded_documents=nx, events=len(evs),
                     legacy_importer_information={"documents": sum(1 for e in evs if e["op"] == "import_legacy"), "disagreements_with_Xml_CorrLegacy": legacy_info[:5],
                                                  "count": len(legacy_info)})
    if legacy_info:
        print(f"LEGACY-INFO (not a verdict; mp_io.from_xml is not a listed property): {len(legacy_info)} documents disagree with Xml!CorrLegacy; first: {legacy_info[0][:300]}")
    rep.sample({"document": rdoc(random.Random(seed), 0, {}, top=True)[:400]})
    rep.cov["evaluations"] = len(evs)
    rep.cov["distinct_nontrivial"] = len(strings) * 6 + nx
    rep.cov["rule"] = f"every text <= {maxlen} over SP/TAB/LF/NBSP/a/b as content and tail x 3 modes x literal/non-literal (exhaustive), plus seeded documents"
    rep.assumptions += ["default (unprefixed) namespaces, NBSP adjacent to non-blank text, Unicode whitespace beyond SP/TAB/LF/NBSP and text adjacent to comments are outside the quantifier / UNSPEC",
                        "what a document denotes is observed with expat; namespace scoping is recomputed in TLA+"]
