"""C11 - read-only operations never modify the tree.

code -> spec: after every read-only call the FULL projection (every field of every node, child
order, namespace maps, registry) is logged; TraceForest.tla treats each call as a stuttering
step (post = pre, field by field) and checks memo consistency: since the last mutating call,
equal calls give equal results - "results do not depend on which of these ran before".
Orders: a baseline pass of every entry point, then every ordered pair enumerated by TLC
(MC_ReadOnly), then seeded sequences of length 24 on larger trees.  Trees: the EML fixture,
rule-guided generated trees, trees with & < > and pre-escaped entities in content, trees with
namespaces, prefixes, extras and tails.
"""
import contextlib
import io
import os
import random

from harness.common import MachineryError, run_tlc, SPEC, workdir, parallel, judge_traces
from harness.c09 import load_log_all
from harness import tables, valtrace
from harness.world import canon, World, Node
from harness.tables import walk

PID = "C11"
G = {}
ALLF = ("name", "kids", "ns", "content", "tail", "prefix", "attrs", "extras", "store")


def _ops():
    from metapype.eml import validate, evaluate, export, rule
    from metapype.model import metapype_io, mp_io

    def pick(root, k):
        nodes, stack = [], [root]          # pre-order without recursion (documents nested deeper than the recursion budget)
        while stack:
            n = stack.pop()
            nodes.append(n)
            stack.extend(reversed(n.children))
        return nodes[(k * 7919) % len(nodes)]

    def rule_for(n):
        return rule.get_rule(n.name)

    def coll(fn, root):
        acc = []
        fn(root, acc)
        return acc

    def fad(root, name):
        acc = []
        root.find_all_descendants(name, acc)
        return acc

    def mpgraph(root):
        buf = io.StringIO()
        with contextlib.redirect_stdout(buf):
            mp_io.graph(root, 0)
        return buf.getvalue()

    def every_path(root):
        """every distinct name path below root (each prefix of it too), in a fixed order"""
        paths = set()

        def go(n, pre):
            for c in n.children:
                p = pre + (c.name,)
                if len(p) <= 6 and p not in paths:
                    paths.add(p)
                go(c, p) if len(p) < 6 else None
        go(root, ())
        return sorted(paths)

    first_name = lambda root: (root.children[0].name if root.children else "zz")  # noqa: E731

    def inner(root):
        """a non-root node with children of its own (the first one in document order), else the root: whole-tree
        operations may be applied to any node, not only to a root"""
        for n in walk(root):
            if n is not root and n.children:
                return n
        return root
    return {
        "validate_tree_ff_inner": lambda r: validate.tree(inner(r)),
        "validate_tree_coll_inner": lambda r: coll(validate.tree, inner(r)),
        "evaluate_tree_inner": lambda r: coll(evaluate.tree, inner(r)),
        "mio_to_json_inner": lambda r: metapype_io.to_json(inner(r)),
        "mio_to_xml_inner": lambda r: metapype_io.to_xml(inner(r)),
        "export_to_xml_inner": lambda r: export.to_xml(inner(r)),
        "mio_graph_inner": lambda r: metapype_io.graph(inner(r)),
        "mpio_to_json_inner": lambda r: mp_io.to_json(inner(r)),
        "validate_node_ff": lambda r: validate.node(pick(r, 1)),
        "validate_node_coll": lambda r: coll(validate.node, pick(r, 1)),
        "validate_tree_ff": lambda r: validate.tree(r),
        "validate_tree_coll": lambda r: coll(validate.tree, r),
        "evaluate_node": lambda r: evaluate.node(pick(r, 2)),
        "evaluate_tree": lambda r: coll(evaluate.tree, r),
        "mio_to_json": lambda r: metapype_io.to_json(r),
        "mio_to_json_indent": lambda r: metapype_io.to_json(r, indent=2),
        "mpio_to_json": lambda r: mp_io.to_json(r),
        "mpio_objectify": lambda r: mp_io.objectify(r),
        "export_to_xml": lambda r: export.to_xml(r),
        "mio_to_xml": lambda r: metapype_io.to_xml(r),
        "mio_graph": lambda r: metapype_io.graph(r),
        "mpio_graph": mpgraph,
        "find_child": lambda r: r.find_child(first_name(r)),
        "find_all_children": lambda r: r.find_all_children(first_name(r)),
        "find_descendant": lambda r: r.find_descendant(pick(r, 3).name),
        "find_all_descendants": lambda r: fad(r, pick(r, 4).name),
        "single_by_path": lambda r: r.find_single_node_by_path([x.name for x in pick(r, 5).get_ancestry()][1:]),
        "all_by_path": lambda r: r.find_all_nodes_by_path([x.name for x in pick(r, 6).get_ancestry()][1:]),
        "all_by_path_every": lambda r: [r.find_all_nodes_by_path(list(p)) for p in every_path(r)],
        "single_by_path_every": lambda r: [r.find_single_node_by_path(list(p)) for p in every_path(r)],
        "find_all_children_every": lambda r: [n.find_all_children(x) for n in walk(r) for x in sorted({c.name for c in n.children})],
        "find_all_descendants_every": lambda r: [fad(r, x) for x in sorted({n.name for n in walk(r)})],
        "get_ancestry": lambda r: pick(r, 7).get_ancestry(),
        "child_index": lambda r: r.child_index(pick(r, 8)),
        "child_insert_index": lambda r: rule_for(r).child_insert_index(r, G_candidate(r)),
        "child_insert_index_first_attached": lambda r: rule_for(r).child_insert_index(r, r.children[0]) if r.children else None,
        "child_insert_index_last_attached": lambda r: rule_for(r).child_insert_index(r, r.children[-1]) if r.children else None,
        "is_allowed_child": lambda r: rule_for(r).is_allowed_child(first_name(r)),
        "is_equal": lambda r: Node.is_equal(pick(r, 9), pick(r, 10)),
        "is_equal_copy": lambda r: Node.is_equal(r, G_copy(r)),
        "is_equal_twin": lambda r: Node.is_equal(r, _TWINS[id(r)]),             # equal but for how one qualified attribute is spelled
        "is_equal_twin_rev": lambda r: Node.is_equal(_TWINS[id(r)], r),
        "str": lambda r: str(pick(r, 11)),
        "repr": lambda r: repr(pick(r, 12)),
        "object": lambda r: pick(r, 13).object,
        "attribute_value": lambda r: pick(r, 14).attribute_value("id"),
        "list_attributes": lambda r: pick(r, 15).list_attributes(),
    }


_COPIES = {}
_CANDS = {}
_TWINS = {}


def G_candidate(root):
    # the candidate child for child_insert_index is created once per trace (creating a node registers it)
    return _CANDS[id(root)]


def G_copy(root):
    # a structurally equal second tree built once per trace, outside the tracked world
    return _COPIES[id(root)]


def render(w, x):
    """Deterministic rendering of a result: nodes by abstract id, containers recursively."""
    if isinstance(x, Node):
        return f"<node {w.ident(x)}>"
    if isinstance(x, (list, tuple)):
        return "[" + ",".join(render(w, y) for y in x) + "]"
    if isinstance(x, dict):
        return "{" + ",".join(f"{k!r}:{render(w, v)}" for k, v in x.items()) + "}"
    if hasattr(x, "name") and hasattr(x, "value") and not isinstance(x, str):
        return str(x)
    return repr(x)


def make_tree(kind, seed, t):
    from metapype.model import metapype_io
    rnd = random.Random(seed)
    if kind == "fixture":
        return valtrace.fixture_root()
    if kind == "default-ns":
        xml = ('<eml xmlns="https://eml.ecoinformatics.org/eml-2.2.0" xmlns:xsi="http://www.w3.org/2001/XMLSchema-instance" packageId="p.1.1" system="s">'
               '<dataset><title>Default namespace &amp; more</title><creator><organizationName>Org</organizationName></creator>'
               '<contact><organizationName>Org</organizationName></contact><additionalMetadata><metadata><u xmlns="urn:other">x</u></metadata></additionalMetadata>'
               '</dataset></eml>')
        return metapype_io.from_xml(xml, clean=rnd.random() < 0.5)
    if kind == "ns":
        xml = ('<eml:eml xmlns:eml="https://eml.ecoinformatics.org/eml-2.2.0" xmlns:xsi="http://www.w3.org/2001/XMLSchema-instance" '
               'packageId="p.1.1" system="s" xsi:schemaLocation="a b"><dataset><title>T &amp; t &lt;x&gt;</title>tail<creator id="c1"><individualName>'
               '<surName>S</surName></individualName></creator><contact><references>c1</references></contact>'
               '<additionalMetadata><metadata><x:unit xmlns:x="urn:x" x:a="1">u</x:unit></metadata></additionalMetadata></dataset></eml:eml>')
        return metapype_io.from_xml(xml, clean=rnd.random() < 0.5)
    if kind == "padded-typed":
        # typed leaves (dates, times, numbers, coordinates, URIs) carrying padded and / or invalid text: a validator that
        # trims or converts while it checks must hand the node back as it was - also when it ends by raising
        root = tables.TreeGen(t, seed, max_depth=5, breadth=3).gen(rnd.choice(["temporalCoverage", "coverage", "dataset", "physical", "boundingCoordinates", "dataTable"]))
        bad = [" 2020-02-30 ", "noon\t", "\n20x8\n", " 25:00:00 ", " 1e999 ", " x ", "\t-181 ", " http:// ", " 12:00:00 ", " 2020-02-29\n", "  7  "]
        # make sure dates and times occur: a date range hung into the tree wherever it is (validity of the whole is beside the point)
        tc = Node("temporalCoverage")
        rg = Node("rangeOfDates")
        tc.add_child(rg)
        for nm in ("beginDate", "endDate"):
            d = Node(nm)
            d.add_child(Node("calendarDate", content="2020-01-01"))
            d.add_child(Node("time", content="12:00:00"))
            rg.add_child(d)
        root.add_child(tc)
        root.add_child(Node("pubDate", content="2020"))
        k = 0
        for n in walk(root):
            kinds = (t.rules.get(t.node_map.get(n.name), [{}, [], {}])[2] or {}).get("content_rules") or []
            if any(kd not in ("emptyContent", "nonEmptyContent", "strContent", "anyContent") for kd in kinds):
                n.content = bad[(seed + k) % len(bad)]
                k += 1
        return root
    if kind == "shadowed":
        # every attribute name a node's rule declares but the node does not carry sits in the node's EXTRAS instead, under the
        # spellings an XML import would file it (xml:lang for lang, a prefixed or Clark-notation name otherwise) - and one
        # attribute the node does carry is mirrored there too.  attributes and extras are two fields; reading never merges them
        root = tables.TreeGen(t, seed, max_depth=4, breadth=3).gen(rnd.choice(["dataset", "eml", "abstract", "creator", "methods"]))
        ttl = Node("title", content="A title in another language")
        root.add_child(ttl, index=0)
        for i, n in enumerate(walk(root)):
            decl = list((t.rules.get(t.node_map.get(n.name), [{}])[0] or {}))
            for a in decl:
                if a not in n.attributes:
                    n.add_extras(["xml:" + a, "{http://www.w3.org/XML/1998/namespace}" + a, "x:" + a, a][(i + len(a)) % 4] if a != "lang" or i % 2 else "xml:lang", "en")
            for a in list(n.attributes)[:1]:
                n.add_extras("xml:" + a, "shadow of " + str(n.attributes[a]))
        return root
    if kind == "shared-ids":
        # ids are the caller's business: here pairs of nodes carry one id (a fragment loaded twice, explicit constructor ids), and
        # one node object is listed under two parents of a detached side tree - reading such a tree changes neither it nor the registry
        base = tables.TreeGen(t, seed, max_depth=3, breadth=3).gen(rnd.choice(["dataset", "creator", "eml"]))
        root = valtrace.reid(base, idfn=lambda i: "id-%d" % (i // 2))       # nodes 2k and 2k+1 share an id
        return root
    if kind == "doubled":
        # every child of the upper levels occurs twice in a row (a copy next to it): repeatable elements really repeated -
        # several physical / distribution / coverage / creator ... children where documents usually have one
        root = tables.TreeGen(t, seed, max_depth=5, breadth=3).gen("dataset")
        dt = tables.TreeGen(t, seed + 1, max_depth=5, breadth=3).gen("dataTable")
        if dt.find_child("physical") is None:
            ph = Node("physical")
            ph.add_child(Node("objectName", content="t.csv"))
            ph.add_child(Node("size", content="10"))
            dt.add_child(ph, index=min(1, len(dt.children)))
        root.add_child(dt)

        def double(n, depth):
            for c in list(n.children):
                if depth < 2:
                    double(c, depth + 1)
                n.add_child(c.copy(), index=n.children.index(c) + 1)
        double(root, 0)
        return root
    if kind == "falsy":
        # every optional field of every node (the root included) holds its FALSY non-None value: tail "", content "", attribute
        # and extras values "", a prefix "" - a save/restore guarded by `if value:` does not put these back
        root = tables.TreeGen(t, seed, max_depth=3, breadth=3).gen(rnd.choice(["dataset", "abstract", "creator", "eml"]))
        for i, n in enumerate(walk(root)):
            n.tail = ""
            if not n.children or i % 2:
                n.content = ""
            for a in list(n.attributes):
                if i % 2:
                    n.add_attribute(a, "")
            n.add_attribute("zzEmpty", "")
            n.add_extras("xml:space", "")
            if i % 3 == 0:
                n.prefix = ""
        return root
    if kind == "unregistered":
        # a live tree some of whose nodes (the root among them) are no longer in the registry - delete_node_instance(id,
        # children=False) does that: the registry is part of what a read-only operation must leave alone
        root = tables.TreeGen(t, seed, max_depth=3, breadth=3).gen(rnd.choice(["dataset", "creator", "project", "eml"]))
        for i, n in enumerate(walk(root)):
            if i % 2 == 0:
                Node.delete_node_instance(n.id, children=False)
        return root
    if kind == "exotic":
        # attribute / extras / namespace values (and content) of types the serialisers were not written for: a read-only
        # operation may refuse them (an exception is a result), it may not "repair" the tree
        import datetime
        import decimal
        import uuid
        root = tables.TreeGen(t, seed, max_depth=3, breadth=3).gen(rnd.choice(["dataset", "creator", "project"]))
        vals = [uuid.UUID(int=seed + 7), decimal.Decimal("1.50"), datetime.date(2020, 2, 29), b"bytes", 5, 1.5, True, None, ("t", 1), frozenset({1})]
        for i, n in enumerate(walk(root)):
            v = vals[(seed + i) % len(vals)]
            if i % 3 == 0:
                n.add_attribute("id" if i % 2 else "zzExotic", v)
            elif i % 3 == 1:
                n.add_extras("x:exotic", v)
            elif not n.children:
                n.content = v
        return root
    if kind in ("mutated", "stripped"):
        # "all trees": invalid ones too - the fixture or a generated tree after adversarial mutations, or with the
        # attributes (required ones included) of half of its nodes removed
        root = valtrace.fixture_root() if seed % 2 else tables.TreeGen(t, seed, max_depth=4, breadth=4).gen(rnd.choice(["eml", "dataset", "creator", "project"]))
        if kind == "mutated":
            for _ in range(rnd.randint(3, 10)):
                valtrace.mutate(root, rnd, t)
        else:
            # (every kind of rule-bearing node should occur without its attributes: a responsible party with ids is hung in)
            pty = Node("creator")
            ind = Node("individualName")
            ind.add_child(Node("surName", content="S"))
            pty.add_child(ind)
            for val in ("0000-0001-2345-6789", "u-17", ""):
                u = Node("userId", content=val)
                u.add_attribute("directory", "https://orcid.org")
                pty.add_child(u)
            root.add_child(pty)
            for n in list(walk(root)):
                if rnd.random() < 0.5 or n.name == "userId":
                    for a in list(n.attributes):
                        n.remove_attribute(a)
                if rnd.random() < 0.1 and n.content is not None:
                    n.content = rnd.choice(["", " ", None])
        return root
    g = tables.TreeGen(t, seed, max_depth=4, breadth=4)
    root = g.gen(rnd.choice(["eml", "dataset", "dataTable", "creator", "abstract", "methods"]))
    if kind == "entities":
        for n in walk(root):
            if n.content is not None and rnd.random() < 0.6:
                n.content = rnd.choice(["a & b", "x < y > z", "pre &amp; escaped", "&lt;para&gt;p&lt;/para&gt;", "<para>inline</para>", "q\"uote's", "&amp;&lt;&gt; and & < >"])
        if root.content is None and not root.children:
            root.content = "R & D <1>"
    return root


def record(kind, seed, plan):
    """plan: list of op names to apply in order (after the baseline pass)."""
    t = G["t"]
    ops = G["ops"]
    w = World()
    root = make_tree(kind, seed, t)
    w.track_tree(root)
    # one node carries a qualified attribute under its Clark name {uri}local (lxml's notation; add_extras takes any key),
    # with the uri bound to a prefix in the node's own map
    if not isinstance(root.nsmap.get("x"), str):
        root.add_namespace("x", "urn:x")
    root.add_extras("{" + str(root.nsmap["x"]) + "}lang", "en")
    _COPIES.clear()
    _COPIES[id(root)] = root.copy()      # registered, but never tracked: excluded from the projection
    twin = root.copy()
    twin.extras.pop("{" + str(root.nsmap["x"]) + "}lang", None)
    twin.add_extras("x:lang", "en")
    _TWINS.clear()
    _TWINS[id(root)] = twin
    _CANDS.clear()
    _CANDS[id(root)] = Node(root.children[0].name if root.children else "zz")
    tr = {"init": w.pi(ALLF + ("plink",)), "events": [], "desc": {"tree": kind, "seed": seed, "nodes": len(w.nodes)}}
    names = sorted(ops)
    from harness.common import deadline
    prev = canon(tr["init"], ALLF)
    for name in names + list(plan):
        reg_before = len(Node.store)
        try:
            with deadline(60):
                res = render(w, ops[name](root))
        except Exception as e:  # noqa: BLE001 - an exception is a result too (C04/C19 judge whether it may escape)
            res = "raised:" + type(e).__name__
        try:
            with deadline(60):
                post = w.pi(ALLF + ("plink",))
                nodes_now = sum(1 for _ in zip(walk(root), range(200000)))
            if nodes_now >= 200000:
                raise MemoryError("tree no longer finite")
        except BaseException as e:  # noqa: BLE001 - MemoryError / RecursionError / watchdog while merely LOOKING at the tree
            tr["damaged"] = {"fn": name, "how": type(e).__name__}
            break
        tr["events"].append({"op": "readonly", "fn": name, "args": [], "ok": True, "ret": 0, "res": w.atoms.atom(res if len(res) < 200000 else res[:200000]), "post": post,
                             "regdelta": len(Node.store) - reg_before})
        if canon(post, ALLF) != prev or post["plink"] != tr["init"]["plink"]:
            break          # the call changed the tree: TLC reports it; further calls on a damaged structure (a node listed twice, a cycle) prove nothing and may not end
    return tr


def record_abyss(depth):
    """A document nested deeper than the interpreter's recursion budget (sections within sections): most read-only entry points
    give up with RecursionError - a result like any other; none may leave the tree changed, whatever it does instead of
    recursing.  Built, tracked and projected without recursion; the recursion limit stays what the library runs under."""
    ops = G["ops"]
    Node.store.clear()
    w = World(clear=False)

    def T(n):
        w.track(n)
        return n
    root = T(Node("eml"))
    root.add_attribute("packageId", "p.1.1")
    root.add_attribute("system", "s")
    ds = T(Node("dataset"))
    root.add_child(ds)
    for nm in ("title", "creator", "abstract", "contact"):
        ds.add_child(T(Node(nm, content="t" if nm == "title" else None)))
    cur = ds.children[2]
    for i in range(depth):
        sec = T(Node("section"))
        if i < 4 or i % 97 == 0:
            cur.add_child(T(Node("title", content="level %d" % i)))
        cur.add_child(sec)
        if i < 4:
            cur.add_child(T(Node("para", content="after")))
        cur = sec
    cur.add_child(T(Node("bottomOnly", content="bottom")))
    _COPIES.clear()
    _TWINS.clear()
    _CANDS.clear()
    _COPIES[id(root)] = Node("eml")
    _TWINS[id(root)] = Node("eml")
    _CANDS[id(root)] = Node("dataset")
    tr = {"init": w.pi(ALLF + ("plink",)), "events": [], "desc": {"tree": "abyss", "depth": depth, "nodes": len(w.nodes)}}
    prev = canon(tr["init"], ALLF)
    from harness.common import deadline
    def fad(r, nm):
        acc = []
        r.find_all_descendants(nm, acc)
        return acc
    # searches that have to go all the way down (a miss, a hit at the very bottom) from the root and from inner nodes
    deep = {"abyss:find_descendant:miss": lambda r: r.find_descendant("zzNotThere"),
            "abyss:find_descendant:bottom": lambda r: r.find_descendant("bottomOnly"),
            "abyss:find_descendant:inner-miss": lambda r: r.children[0].find_descendant("zzNotThere"),
            "abyss:find_all_descendants:miss": lambda r: fad(r, "zzNotThere"),
            "abyss:find_all_descendants:bottom": lambda r: fad(r, "bottomOnly"),
            "abyss:find_all_descendants:every-level": lambda r: len(fad(r, "section")),
            "abyss:single_by_path": lambda r: r.find_single_node_by_path(["dataset", "abstract"] + ["section"] * depth + ["bottomOnly"]),
            "abyss:all_by_path": lambda r: r.find_all_nodes_by_path(["dataset", "abstract"] + ["section"] * depth + ["bottomOnly"]),
            "abyss:ancestry-of-the-bottom": lambda r: len(w.nodes[-1].get_ancestry()) if hasattr(w.nodes[-1], "get_ancestry") else 0}
    allops = dict(ops)
    allops.update(deep)
    for name in sorted(allops):
        reg_before = len(Node.store)
        try:
            with deadline(60):
                res = render(w, allops[name](root))
        except BaseException as e:  # noqa: BLE001
            res = "raised:" + type(e).__name__
        post = w.pi(ALLF + ("plink",))
        tr["events"].append({"op": "readonly", "fn": name, "args": [], "ok": True, "ret": 0, "res": w.atoms.atom(res if len(res) < 2000 else res[:2000]), "post": post,
                             "regdelta": len(Node.store) - reg_before})
        if canon(post, ALLF) != prev or post["plink"] != tr["init"]["plink"]:
            break
    return tr


def w_record(jobs):
    return [record(*j) if j[0] != "abyss" else record_abyss(j[1]) for j in jobs]


def run(rep, tier, seed):
    t = tables.get_tables(rep)
    ops = _ops()
    G.update(t=t, ops=ops)
    wd = workdir(PID, "mc", wipe=True)
    cfgp = os.path.join(wd, "MC_ReadOnly.cfg")
    open(cfgp, "w").write("SPECIFICATION Spec\nCONSTANT ReadOps = {" + ", ".join('"%s"' % n for n in sorted(ops)) + "}\nINVARIANT Log\n")
    r = run_tlc("MC_ReadOnly", cfg=cfgp, timeout=600)
    if not r.ok:
        raise MachineryError("MC_ReadOnly failed:\n" + r.out[-1500:])
    rep.add_tlc(r, "MC_ReadOnly (all ordered pairs of read-only entry points)")
    pairs = [(p["a"], p["b"]) for p in r.json_lines() if p.get("k") == "P"]
    if len(pairs) != len(ops) ** 2:
        raise MachineryError(f"expected {len(ops) ** 2} ordered pairs, TLC logged {len(pairs)}")
    plan_pairs = [x for p in pairs for x in p]
    rnd = random.Random(seed)
    jobs = []
    # all ordered pairs on small trees of every kind
    for i, kind in enumerate(["generated", "entities", "ns", "default-ns", "shadowed", "falsy", "shared-ids"] + (["generated", "entities"] if tier == "thorough" else [])):      # (small trees: 31^2 pairs of calls each)
        jobs.append((kind, seed * 101 + i, plan_pairs))
    # seeded sequences of length 24 on larger trees, incl. the fixture
    nseq = 28 if tier == "quick" else 322
    for i in range(nseq):
        kind = ["fixture", "generated", "entities", "ns", "default-ns", "mutated", "stripped", "exotic", "unregistered", "padded-typed", "shadowed", "falsy", "shared-ids", "doubled"][i % 14]
        jobs.append((kind, seed * 977 + i, [rnd.choice(sorted(ops)) for _ in range(24)]))
    jobs.append(("abyss", 1100, []))
    traces = [tr for chunk in parallel(w_record, jobs, chunk=1) for tr in chunk]
    strip = lambda tr: {"init": tr["init"], "events": tr["events"]}  # noqa: E731
    rejects, rr = judge_traces([strip(tr) for tr in traces], PID, label="readonly", timeout=3000)
    rep.cov["states"] += rr.distinct or 0
    rep.cov["transitions"] += rr.generated or 0
    rep.cov["traces_validated_against_impl"] = len(traces)
    nev = sum(len(tr["events"]) for tr in traces)
    for tr in traces:
        if tr.get("damaged"):
            d = tr["damaged"]
            rep.violation(f"{PID}:{d['fn']}:mutates:structure-damaged", f"after the read-only call {d['fn']} on a {tr['desc']} tree the tree cannot be projected any more ({d['how']}): a node listed twice, a cycle or unbounded growth",
                          {"kind": "readonly", "desc": tr["desc"], "call": d["fn"], "clause": "structure-damaged"})
    for rj in rejects:
        tr = traces[rj["trace"] - 1]
        e = tr["events"][rj["event"] - 1]
        prev = [x["fn"] for x in tr["events"][max(0, rj["event"] - 3):rj["event"] - 1]]
        for cl in rj["clauses"]:
            what = "result-depends-on-what-ran-before" if cl.startswith("result") else f"mutates:{cl}"
            rep.violation(f"{PID}:{e['fn']}:{what}", f"read-only call {e['fn']} on a {tr['desc']} tree: clause {cl} (previous calls {prev})",
                          {"kind": "readonly", "desc": tr["desc"], "call": e["fn"], "clause": cl, "calls_before": [x["fn"] for x in tr["events"][:rj["event"] - 1]][-30:]})
    rep.notes.update(read_only_entry_points=sorted(ops), ordered_pairs=len(pairs), events_judged=nev, trees=[tr["desc"] for tr in traces][:12])
    rep.sample({"tree": traces[0]["desc"], "calls": [e["fn"] for e in traces[0]["events"][:40]]})
    from harness import suite
    suite.run_for(rep, "C11")
    rep.cov["evaluations"] = nev
    rep.cov["distinct_nontrivial"] = len(pairs) + len(ops)
    rep.cov["rule"] = "distinct = read-only entry points and their ordered pairs (each applied on several trees); every event carries the full projection"
    rep.assumptions += ["a raised exception counts as the call's result here; whether it may escape is judged by C04/C19",
                        "the registry is compared on the ids of the tree's nodes"]
