"""C05 - whole-tree validation is the conjunction of node validations; metadata is opaque.

code -> spec: valid base trees (rule-guided generator driven by TLC's tables, asserted valid;
and the repository's EML fixture) get 0-4 independently planted defects at different depths -
systematically every single site and every pair of sites on one ~40-node tree - and arbitrary
foreign subtrees under additionalMetadata/metadata.  Each tree becomes one event (node table,
observed per-node outcomes in both modes, observed tree outcomes) judged by TraceValidate.tla:
the tree's error list must be the document-order concatenation of the visible nodes' lists,
and fail-fast must succeed iff every visible node validates alone.
"""
import random

from harness.common import MachineryError, parallel, judge_traces
from harness import tables, valtrace
from harness.tables import walk

PID = "C05"
G = {}
PLANT = ["corrupt-content-class", "corrupt-content-reject-class", "corrupt-content-reject-class", "add-unknown-child", "add-misplaced-child", "rename-unknown", "corrupt-attr", "add-attr", "drop",
         "duplicate", "graft-under-metadata", "set-content-on-empty", "clear-content", "twin-corrupt-attr-value", "twin-corrupt-attr-value", "twin-corrupt-earlier", "corrupt-content-surrogate", "corrupt-content-surrogate"]


def plant_at(node, kind, rnd, t):
    from metapype.model.node import Node
    if kind == 0:
        node.content = "zqDefect" if node.content is None else None
    elif kind == 1:
        node.add_child(Node("zzUnknownChild"), index=rnd.randint(0, len(node.children)))
    elif kind == 2:
        node.add_attribute("zzBadAttr", "v")
    elif kind == 5:
        # an unknown element whose name LOOKS like "metadata" (substring, prefix, other case, padded) with invalid nodes below it:
        # it is not a metadata element, so what is below it counts
        j = Node(rnd.choice(["data", "meta", "a", "", "metadat", "etadata", "Metadata", "metadata ", "x:metadata", "additionalMetadata2"]))
        j.add_child(Node("pubDate", content="not a date"))
        k = Node("individualName")
        k.add_child(Node("zzDeep"))
        j.add_child(k)
        node.add_child(j, index=rnd.randint(0, len(node.children)))
    elif kind == 4:
        node.content = "lone\ud800surrogate"          # not Unicode text; whatever validate.node says of it, validate.tree must say too
    else:
        node.add_child(Node("title", content="misplaced"))


def with_metadata(root, rnd):
    """Make sure the tree has additionalMetadata/metadata with arbitrary foreign content below."""
    from metapype.model.node import Node
    if root.name != "eml":
        return
    am = Node("additionalMetadata")
    md = Node("metadata")
    if rnd.random() < 0.4:
        # the element is metadata whatever prefix it carries (as <eml:metadata> / a JSON model with a prefix would leave it)
        md.prefix = rnd.choice(["eml", "x", ""])
        md.add_namespace("eml", "https://eml.ecoinformatics.org/eml-2.2.0")
    am.add_child(md)
    root.add_child(am)
    for _ in range(rnd.choice([0, 1, 1, 2, 3])):       # more than one child under metadata is itself invalid
        j = Node(rnd.choice(["zzForeign", "dataset", "unitList"]), content=rnd.choice([None, "text", ""]))
        j.add_attribute("zzWhatever", "1")
        k = Node(rnd.choice(["title", "zzInner"]), content=None)
        k.add_child(Node("zzDeep", content="x"))
        j.add_child(k)
        # whatever hangs below metadata, tails included (text after the foreign element, as <metadata><u/>note</metadata> imports)
        j.tail = rnd.choice([None, "note after the foreign element", "\n  ", "x", "\u00a0"])
        k.tail = rnd.choice([None, "inner tail"])
        md.add_child(j)


def w_systematic(jobs):
    """All single sites / pairs of sites on the systematic base tree."""
    from metapype.model.node import Node
    evs = []
    t = G["t"]
    for (seed, sites, kinds) in jobs:
        g = tables.TreeGen(t, G["base_seed"], max_depth=4, breadth=4)
        root = g.gen(G["base_el"])
        nodes = list(walk(root))
        rnd = random.Random(seed)
        for s, k in zip(sites, kinds):
            plant_at(nodes[s], k, rnd, t)
        ev = valtrace.observe_tree(root)
        ev["desc"] = {"base_seed": G["base_seed"], "element": G["base_el"], "sites": sites, "kinds": kinds}
        evs.append(ev)
        Node.store.clear()
    return evs


def w_random(seeds):
    from metapype.model.node import Node
    evs, invalid_bases = [], []
    t = G["t"]
    for seed in seeds:
        rnd = random.Random(seed)
        if seed % 5 == 0:
            root = valtrace.fixture_root()
            desc = {"base": "fixture"}
        else:
            el = rnd.choice(["eml", "eml", "dataset", "dataTable", "methods", "project", "coverage", "coverage", "geographicCoverage", "boundingCoordinates",
                             "creator", "abstract", "attributeList", "attribute", "physical"])
            g = tables.TreeGen(t, seed, max_depth=5, breadth=rnd.randint(2, 8))
            root, errs = g.gen_valid(el)
            desc = {"base": "generated", "element": el, "seed": seed}
            if errs:
                invalid_bases.append((el, seed, errs[:3]))
        with_metadata(root, rnd)
        if seed % 9 == 8:
            # validation may start anywhere: a tree handed to validate.tree that is ROOTED at a metadata element (or at its holder)
            md = [x for x in walk(root) if x.name == "metadata"]
            if md:
                root = rnd.choice(md) if rnd.random() < 0.7 else rnd.choice(md).parent
                desc = dict(desc, rooted_at=root.name)
        muts = []
        for _ in range(rnd.choice([0, 1, 1, 2, 3, 4])):
            m = valtrace.mutate(root, rnd, t, PLANT)
            if m:
                muts.append(m)
        if seed % 8 == 5:
            root.add_namespace(None, "https://eml.ecoinformatics.org/eml-2.2.0")      # a default namespace next to a prefix, as an XML import leaves them
            root.add_namespace("xsi", "http://www.w3.org/2001/XMLSchema-instance")
            desc["tree"] = "default + prefixed namespace on every node"
        if seed % 8 == 3:
            for x in list(walk(root)):
                x.parent = None                        # the tree is its child lists; the stored back pointers are cleared through the public setter
            desc["tree"] = "all parent pointers cleared"
        elif seed % 8 == 7:
            md = [x for x in walk(root) if x.name == "metadata" and x.children]
            if md:                                     # a branch that sat below a metadata element, taken out with remove_child (its back pointer stays)
                holder = rnd.choice(md)
                root = holder.children[0]
                holder.remove_child(root)
                desc["tree"] = "branch detached from below a metadata element"
        if seed % 4 == 1:
            Node.store.clear()                         # a live tree none of whose nodes is registered (the registry is not the tree)
            desc["tree"] = "registry emptied after building"
        elif seed % 4 == 2:
            try:
                root = valtrace.reid(root)             # every node carries the same id
                desc["tree"] = "all nodes share one id"
            except Exception:  # noqa: BLE001 - a mutated tree the JSON codec cannot carry (non-string attribute values): keep it as built
                pass
        ev = valtrace.observe_tree(root)
        desc["mutations"] = muts
        ev["desc"] = desc
        evs.append(ev)
        Node.store.clear()
    return evs, invalid_bases


def w_twins(units):
    """Look-alike pairs: two nodes of one rule inside ONE walk that agree in name, content, attribute NAMES and children and
    differ only in the VALUE of an enumerated attribute (listed in one, unlisted in the other), in both document orders,
    alone and with a third look-alike between them.  The tree's list must still be the concatenation of the per-node lists."""
    from metapype.model.node import Node
    from metapype.eml import validate
    from harness import c01, c02
    t = G["t"]
    evs = []
    for unit in units:
        el = G["elem"].get(unit)
        enum_attrs = [a for a, v in t.rules[unit][0].items() if len(v) > 1]
        if not el or not enum_attrs:
            continue

        def make(attr=None, value=None):
            p = c02.build_node(unit, el, None, False, t.rules, t.dfas) or c02.build_node(unit, el, None, True, t.rules, t.dfas)
            if p is None:
                return None
            p.content = c01.parent_for(unit, el, t.rules).content
            for a in enum_attrs:                      # every enumerated attribute present with a listed value
                p.add_attribute(a, t.rules[unit][0][a][1])
            if attr:
                p.add_attribute(attr, value)
            return p
        for a in enum_attrs:
            for order in ("good-bad", "bad-good", "good-good-bad", "bad-good-good"):
                Node.store.clear()
                root = Node("zzTwins")
                ok = True
                for k in order.split("-"):
                    n = make(a, "zzUnlistedValue") if k == "bad" else make()
                    if n is None:
                        ok = False
                        break
                    root.add_child(n)
                if not ok:
                    continue
                ev = valtrace.observe_tree(root)
                ev["desc"] = {"base": "look-alike twins", "unit": unit, "element": el, "attribute": a, "order": order}
                evs.append(ev)
    Node.store.clear()
    return evs


def w_wide(jobs):
    """Very wide nodes (hundreds of children), invalid nodes among the LATE siblings and below them: position among the
    siblings is not depth, and every node is visited however many came before it."""
    from metapype.model.node import Node
    evs = []
    for (parent, child, width) in jobs:
        Node.store.clear()
        root = Node("dataset")
        root.add_child(Node("title", content="t"))
        p = Node(parent)
        root.add_child(p)
        for i in range(width):
            c = Node(child, content=None if i % 53 == 52 else "k%d" % i)      # now and then a child without its text
            if i % 97 == 96:
                c.add_attribute("zzForeign", "v")
            if i == width - 1:
                g = Node("zzUnknownBelowTheLast", content="x")
                c.add_child(g)
                g.add_child(Node("title"))
            p.add_child(c)
        ev = valtrace.observe_tree(root)
        ev["desc"] = {"base": "wide", "parent": parent, "child": child, "children": width}
        evs.append(ev)
    Node.store.clear()
    return evs


def strip(ev):
    return {k: v for k, v in ev.items() if k != "desc"}


def run(rep, tier, seed):
    from harness.world import Node  # noqa: F401
    t = tables.get_tables(rep)
    rnd = random.Random(seed)
    # systematic base: a generated tree of about 40 nodes
    base_el, base_seed, size = "dataset", None, 0
    for s in range(seed * 1000, seed * 1000 + 400):
        g = tables.TreeGen(t, s, max_depth=4, breadth=4)
        root, errs = g.gen_valid(base_el)
        size = sum(1 for _ in walk(root))
        if not errs and 30 <= size <= 50:
            base_seed = s
            break
    if base_seed is None:
        raise MachineryError("could not generate a valid ~40-node base tree")
    G.update(t=t, base_el=base_el, base_seed=base_seed)
    jobs = [(seed + i, [i], [k]) for i in range(size) for k in range(6)]
    pairs = [(i, j) for i in range(size) for j in range(i + 1, size)]
    if tier == "quick":
        pairs = rnd.sample(pairs, min(len(pairs), 250))
    jobs += [(seed + 7 * i + j, [i, j], [rnd.randrange(6), rnd.randrange(6)]) for (i, j) in pairs]
    evs = [e for chunk in parallel(w_systematic, jobs) for e in chunk]
    nrand = 300 if tier == "quick" else 6000
    bad_bases = []
    for chunk, bb in parallel(w_random, [seed * 100000 + i for i in range(nrand)]):
        evs += chunk
        bad_bases += bb
    elem = {}
    for el_, ru in t.node_map.items():
        if el_ != "metadata":
            elem.setdefault(ru, el_)
    G["elem"] = elem
    twins = [e for chunk in parallel(w_twins, sorted(t.rules)) for e in chunk]
    rep.notes["look_alike_twin_trees"] = len(twins)
    evs += twins
    wide = [e for chunk in parallel(w_wide, [("keywordSet", "keyword", 400), ("access", "allow", 300), ("keywordSet", "keyword", 1100), ("zzUnknownParent", "para", 600),
                                             ("attributeList", "attribute", 260)], chunk=1) for e in chunk]
    evs += wide
    rep.notes["generated_bases_not_valid"] = bad_bases[:5]
    if bad_bases:
        # a base that does not validate is a C10/C01 matter; it still is a legitimate C05 input
        rep.notes["generated_bases_not_valid_count"] = len(bad_bases)
    rejects, r = judge_traces([strip(e) for e in evs], PID, module="TraceValidate", cfg="TraceValidate.cfg", label="trees")
    rep.cov["traces_validated_against_impl"] = len(evs)
    rep.cov["states"] += r.distinct or 0
    rep.cov["transitions"] += r.generated or 0
    multi = sum(1 for e in evs if sum(1 for x in e["nodeErrs"] if x) >= 2)
    under_md = sum(1 for e in evs if "metadata" in e["name"])
    rep.notes.update(trees=len(evs), trees_with_two_or_more_invalid_nodes=multi, trees_with_metadata=under_md,
                     systematic_base={"element": base_el, "seed": base_seed, "nodes": size})
    if multi == 0 or under_md == 0:
        raise MachineryError("vacuous: no tree with several invalid nodes / with metadata")
    for rj in rejects:
        e = evs[rj["event"] - 1]
        for cl in rj["clauses"]:
            if cl.startswith(("tree-errors", "tree-failfast", "metadata-outcome")):
                rep.violation(f"{PID}:{cl}", f"{cl}: tree errors {e['coll'][:8]} vs per-node errors {[(i + 1, x) for i, x in enumerate(e['nodeErrs']) if x][:8]}; ff {e['ff']}",
                              {"kind": "tree", "desc": e["desc"], "event": strip(e)})
    rep.notes["events_with_C04_only_clauses"] = sum(1 for rj in rejects if not any(c.startswith(("tree-errors", "tree-failfast", "metadata-outcome")) for c in rj["clauses"]))
    rep.sample({"desc": evs[0]["desc"], "nodes": len(evs[0]["name"]), "tree_errors": evs[0]["coll"][:6]})
    rep.cov["evaluations"] = sum(len(e["name"]) for e in evs)
    rep.cov["distinct_nontrivial"] = len({str(e["desc"]) for e in evs})
    rep.cov["rule"] = "one event per tree; distinct by base tree + planted sites/kinds; non-trivial = at least one node observed invalid or metadata content present"
    rep.assumptions += ["per-node observations come from validate.node on the same tree; only their relation to validate.tree is judged here (C04 judges the outcomes themselves)"]
