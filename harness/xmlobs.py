"""Independent observation of what an XML text denotes: expat in non-namespace mode returns
element and attribute names AS WRITTEN (prefix:local, xmlns:* as ordinary attributes, in
order) and character data; the specification (Text.tla / Xml.tla) does the rest."""
import xml.parsers.expat as expat


def codes(s):
    return [-1] if s is None else [ord(c) for c in s]


def uncodes(c):
    return None if c == [-1] else "".join(chr(x) for x in c)


def parse_raw(text, keep_comments=False):
    """Returns the root as {"n": name, "a": [[name, codes], ...], "c": [items]}; raises on ill-formed input."""
    p = expat.ParserCreate()
    p.ordered_attributes = True
    p.buffer_text = True
    stack = [{"n": "", "a": [], "c": []}]

    def start(name, attrs):
        node = {"n": name, "a": [[attrs[i], codes(attrs[i + 1])] for i in range(0, len(attrs), 2)], "c": []}
        stack[-1]["c"].append({"t": "e", "e": node, "s": []})
        stack.append(node)

    def end(name):
        stack.pop()

    def chars(data):
        items = stack[-1]["c"]
        if items and items[-1]["t"] == "t":
            items[-1]["s"] += codes(data)
        else:
            items.append({"t": "t", "e": 0, "s": codes(data)})

    def comment(data):
        if keep_comments:
            stack[-1]["c"].append({"t": "c", "e": 0, "s": codes(data)})
        else:
            # a comment separates two character-data runs; keep them separate text items
            stack[-1]["c"].append({"t": "x", "e": 0, "s": []})

    p.StartElementHandler = start
    p.EndElementHandler = end
    p.CharacterDataHandler = chars
    p.CommentHandler = comment
    p.Parse(text.encode("utf-8") if isinstance(text, str) else text, True)
    root_items = [i for i in stack[0]["c"] if i["t"] == "e"]
    root = root_items[0]["e"]
    if not keep_comments:
        _drop_markers(root)
    return root


def _drop_markers(node):
    node["c"] = [i for i in node["c"] if i["t"] != "x"]
    for i in node["c"]:
        if i["t"] == "e":
            _drop_markers(i["e"])


def split_q(name):
    if ":" in name:
        p, l = name.split(":", 1)
        return p, l
    return "", name


def raw_split(node):
    """parse_raw tree -> Xml.tla rnode (qualified names split at the colon)."""
    p, l = split_q(node["n"])
    attrs = []
    for an, v in node["a"]:
        if an == "xmlns":
            attrs.append({"p": "xmlns", "l": "", "v": v})       # default namespace (outside the quantifier)
        else:
            ap, al = split_q(an)
            attrs.append({"p": ap, "l": al, "v": v})
    items = []
    for it in node["c"]:
        if it["t"] == "e":
            items.append({"t": "e", "e": raw_split(it["e"]), "s": []})
        elif it["t"] == "t":
            items.append({"t": "t", "e": 0, "s": it["s"]})
    return {"p": p, "l": l, "a": attrs, "c": items}


XML_URI = "http://www.w3.org/XML/1998/namespace"


def tree_proj(n):
    """Real node -> Xml.tla tnode."""
    import re
    extras = []
    for k, v in n.extras.items():
        m = re.match(r"^\{(.*)\}(.*)$", k)
        if m:
            extras.append({"uri": codes(m.group(1)), "local": m.group(2), "v": codes(v), "prefixed": False})
        elif ":" in k:
            p, l = k.split(":", 1)
            uri = XML_URI if p == "xml" else n.nsmap.get(p)
            extras.append({"uri": codes(uri), "local": l, "v": codes(v), "prefixed": uri is not None})
        else:
            extras.append({"uri": [-1], "local": k, "v": codes(v), "prefixed": False})
    return {"name": n.name, "prefix": "" if n.prefix is None else n.prefix,
            "ns": [[k, codes(u)] for k, u in n.nsmap.items() if k is not None],
            "attrs": [[k, codes(v)] for k, v in n.attributes.items()], "extras": extras,
            "content": codes(n.content), "tail": codes(n.tail), "kids": [tree_proj(c) for c in n.children]}
