"""C19 - evaluation is total and reports exactly the documented recommendations.

MC_EvalPlans (TLC) enumerates dataset profiles with every threshold at -1/0/+1 (title words
1/4/5/6; abstract words 19/20/21 in own text, para, markdown, split, below sections, paras
with only inline children; keywords 0/4/5 over 1-2 sets; every optional part present/absent;
party user id none / other directory / ORCID, e-mail, given name).  Each profile is realised as
a tree that must pass validate.tree (otherwise it is discarded and counted), evaluated with a
pre-filled warning list, and the (warning, node) pairs are judged node by node by TraceEval.tla
against Evaluate.tla.  Rule-guided random valid trees go through the same judge; arbitrary
trees over known names (mutations, parentless description, text-less paras) are judged for
totality only.
"""
import os
import random

from harness.common import deadline, MachineryError, run_tlc, SPEC, parallel, judge_traces
from harness import tables, valtrace
from harness.world import Node
from harness.tables import walk

PID = "C19"
G = {}
SENTINEL = ("sentinel", "earlier entry", None)


HOSTILE_WORDS = ["{A}", "{0}", "%s", "%(x)s", "{", "}}", "\\N{X}", "${x}", "<b>", "a&b", "'q\"", "{:>9}", "%", "\\", "{a.b}", "[0]", "e\u0301",
                 # one word each: characters whose COMPATIBILITY decomposition starts with a space (spacing accents), ligatures, wide forms
                 "L\u00b4\u00e9tude", "na\u00a8ive", "x\u00afy", "fa\u00b8ade", "\u0384\u03b1", "a\u02d8b", "\ufb01eld", "\uff21\uff22", "km\u00b2", "\u2460\u2461"]


def words(n, seed=0):
    """n words; when G['hostile'] is set, words that mean something to str.format, %-formatting, templates, XML"""
    pool = HOSTILE_WORDS if G.get("hostile") else ["alpha", "beta", "gamma", "delta", "x", "long-word", "été", "data"]
    off = G.get("hostile_off", 0) if G.get("hostile") else 0          # (which hostile words a text starts with rotates from tree to tree)
    return " ".join(pool[(i + seed + off) % len(pool)] for i in range(n))


def party(el, userId="orcid", email=True, given=True):
    p = Node(el)
    i = Node("individualName")
    if given:
        i.add_child(Node("givenName", content="Ann"))
    i.add_child(Node("surName", content="Lee"))
    p.add_child(i)
    if email in (True, "one"):
        p.add_child(Node("electronicMailAddress", content="a@example.org"))
    elif email in ("empty-then-filled", "filled-then-empty", "value-only-then-filled"):
        filled = Node("electronicMailAddress", content="a@example.org")
        empty = Node("electronicMailAddress", content="" if email != "value-only-then-filled" else None)
        if email == "value-only-then-filled":
            v = Node("value", content="b@example.org")
            v.add_attribute("lang", "en")
            empty.add_child(v)
        for x in ([filled, empty] if email == "filled-then-empty" else [empty, filled]):
            p.add_child(x)
    def uid(directory, val):
        u = Node("userId", content=val)
        u.add_attribute("directory", directory)
        return u
    # several user ids in every order: "a+b" lists a before b
    for part in ([] if userId == "none" else userId.split("+")):
        if part == "orcid":
            p.add_child(uid("https://orcid.org", "0000-0001-2345-6789"))
        else:
            p.add_child(uid("https://example.org/dir", "u-17"))
    if el in ("associatedParty", "personnel"):
        p.add_child(Node("role", content="principalInvestigator"))
    return p


def abstract(kind):
    if kind == "absent":
        return None
    a = Node("abstract")
    def para(n, seed=0):
        return Node("para", content=words(n, seed))
    if kind.startswith("text"):
        a.content = words(int(kind[4:]))
    elif kind.startswith("para") and kind[4:].isdigit():
        a.add_child(para(int(kind[4:])))
    elif kind.startswith("split"):
        n = int(kind[5:])
        a.content = words(n - 10)
        a.add_child(para(5, 1))
        a.add_child(Node("markdown", content=words(5, 2)))
    elif kind == "markdown20":
        a.add_child(Node("markdown", content=words(20)))
    elif kind == "section-para20":
        s = Node("section")
        s.add_child(Node("title", content="Section title"))
        s.add_child(para(12))
        inner = Node("section")
        inner.add_child(para(8, 3))
        s.add_child(inner)
        a.add_child(s)
    elif kind.startswith("para-inline-only"):
        p = Node("para")
        p.add_child(Node("emphasis", content="inline"))
        a.add_child(p)
        if kind.endswith("+para20"):
            a.add_child(para(20))
    elif kind == "para-empty":
        a.add_child(Node("para"))
    elif kind in ("para-list19", "para-list20"):
        # text nested INSIDE a paragraph: abstract/para/itemizedlist/listitem/para (and an ordered list inside a list item)
        n = int(kind[-2:])
        p = para(8)
        il = Node("itemizedlist")
        li = Node("listitem")
        li.add_child(para(7, 2))
        ol = Node("orderedlist")
        li2 = Node("listitem")
        li2.add_child(para(n - 15, 4))
        ol.add_child(li2)
        li.add_child(ol)
        il.add_child(li)
        p.add_child(il)
        a.add_child(p)
    return a


def insert_valid(t, parent, child):
    """Insert child at the first index for which TLC's automaton of the parent's rule accepts the child names."""
    d = t.dfas[t.node_map[parent.name]]
    names = [c.name for c in parent.children]
    for i in range(len(names) + 1):
        w = names[:i] + [child.name] + names[i:]
        if all(a in d.sigma for a in w) and d.out[d.run(w)] == "ACCEPT":
            parent.add_child(child, index=i)
            return True
    return False


def attribute_methods(t, attribute_list, variant):
    """attribute/methods/methodStep/(description, dataSource(title, creator, contact)): rule-bearing nodes deep below attributeList"""
    attr = attribute_list.find_child("attribute")
    if attr is None:
        return
    bare = variant == "parties-bare"
    ds = Node("dataSource")
    ds.add_child(Node("title", content="source data set of the attribute"))
    ds.add_child(party("creator", "none" if bare else "orcid", not bare, not bare))
    ds.add_child(party("contact", "none" if bare else "other-directory", not bare, True))
    ms = Node("methodStep")
    dsc = Node("description")
    dsc.add_child(Node("para", content="how the attribute was measured"))
    ms.add_child(dsc)
    ms.add_child(ds)
    m = Node("methods")
    m.add_child(ms)
    insert_valid(t, attr, m)


def data_table(t, g, tb, seed=0):
    dt = Node("dataTable")
    dt.add_child(Node("entityName", content="table-1"))
    if tb["desc"]:
        dt.add_child(Node("entityDescription", content="a table"))
    ph = Node("physical")
    ph.add_child(Node("objectName", content="t.csv"))
    if tb["size"]:
        ph.add_child(Node("size", content="1024"))
    if tb["auth"]:
        au = Node("authentication", content="d41d8cd98f00b204e9800998ecf8427e")
        au.add_attribute("method", "MD5")
        ph.add_child(au)
    df = Node("dataFormat")
    tf = Node("textFormat")
    if tb["delim"]:
        # the delimiter as escaped text, or as the real control characters (a value made of line breaks is a value)
        tf.add_child(Node("recordDelimiter", content=["\\n", "\n", "\r\n", "\r"][seed % 4]))
    tf.add_child(Node("attributeOrientation", content="column"))
    sd = Node("simpleDelimited")
    sd.add_child(Node("fieldDelimiter", content=","))
    tf.add_child(sd)
    df.add_child(tf)
    ph.add_child(df)
    dt.add_child(ph)
    if tb.get("attrMethods", "none") != "none":
        al = Node("attributeList")
        at = Node("attribute")
        at.add_child(Node("attributeName", content="site"))
        at.add_child(Node("attributeDefinition", content="site code"))
        sc = Node("measurementScale")
        cur = sc
        for nm in ("nominal", "nonNumericDomain", "textDomain"):
            nx = Node(nm)
            cur.add_child(nx)
            cur = nx
        cur.add_child(Node("definition", content="any text"))
        at.add_child(sc)
        al.add_child(at)
        attribute_methods(t, al, tb["attrMethods"])
    else:
        al = g.gen("attributeList", depth=g.max_depth - 1)
    dt.add_child(al)
    if tb["nrec"]:
        dt.add_child(Node("numberOfRecords", content="10"))
    return dt


RICH = {"group": "nested", "titleWords": 6, "abstract": "text21", "keywords": [5, 2], "coverage": True, "rights": True, "methods": True, "project": True, "source": "absent",
        "table": {"present": True, "desc": True, "size": True, "auth": True, "nrec": True, "delim": True, "attrMethods": "none"}, "other": "with-description",
        "party": {"el": "creator", "userId": "orcid", "email": True, "given": True}}
BARE = {"group": "nested", "titleWords": 1, "abstract": "absent", "keywords": [], "coverage": False, "rights": False, "methods": False, "project": False, "source": "absent",
        "table": {"present": False, "desc": False, "size": False, "auth": False, "nrec": False, "delim": False, "attrMethods": "none"}, "other": "absent",
        "party": {"el": "creator", "userId": "none", "email": False, "given": False}}


def nest_source(t, d, kind, seed):
    """Put a dataSource built like a complete (rich) or minimal (bare) dataset into the dataset's own methods, or,
    when it has none, into the methods of its first data table."""
    src = build(RICH if kind == "rich" else BARE, t, seed + 7)
    src.name = "dataSource"
    host = d.find_child("methods")
    if host is not None:
        host.find_child("methodStep").add_child(src)
        return True
    dt = d.find_child("dataTable")
    if dt is None:
        return False
    m = Node("methods")
    ms = Node("methodStep")
    ds = Node("description")
    ds.add_child(Node("para", content="how the table was made"))
    ms.add_child(ds)
    ms.add_child(src)
    m.add_child(ms)
    return insert_valid(t, dt, m)


def build(profile, t, seed):
    d = build_dataset(profile, t, seed)
    if profile.get("source", "absent") != "absent":
        nest_source(t, d, profile["source"], seed)
    return d


def build_dataset(profile, t, seed):
    g = tables.TreeGen(t, seed, max_depth=3, breadth=1)
    d = Node("dataset")
    d.add_child(Node("title", content=words(profile["titleWords"])))
    pt = profile["party"]
    parties = {"creator": party("creator"), "contact": party("contact")}
    if pt["el"] in ("creator", "contact"):
        parties[pt["el"]] = party(pt["el"], pt["userId"], pt["email"], pt["given"])
    d.add_child(parties["creator"])
    if pt["el"] == "metadataProvider":
        d.add_child(party("metadataProvider", pt["userId"], pt["email"], pt["given"]))
    if pt["el"] == "associatedParty":
        d.add_child(party("associatedParty", pt["userId"], pt["email"], pt["given"]))
    a = abstract(profile["abstract"])
    if a is not None:
        d.add_child(a)
    for k in profile["keywords"]:
        ks = Node("keywordSet")
        for i in range(k):
            ks.add_child(Node("keyword", content=f"kw{i}"))
        d.add_child(ks)
    if profile["rights"]:
        d.add_child(Node("intellectualRights", content="CC0 applies"))
    if profile["coverage"]:
        d.add_child(g.gen("coverage", depth=1))
    d.add_child(parties["contact"])
    if profile["methods"]:
        m = Node("methods")
        ms = Node("methodStep")
        ds = Node("description")
        ds.add_child(Node("para", content="how it was done"))
        ms.add_child(ds)
        m.add_child(ms)
        d.add_child(m)
    if profile["project"]:
        pr = Node("project")
        pr.add_child(Node("title", content="a project"))
        pr.add_child(party("personnel", pt["userId"], pt["email"], pt["given"]) if pt["el"] == "personnel" else party("personnel"))
        d.add_child(pr)
    if profile["table"]["present"]:
        d.add_child(data_table(t, g, profile["table"], seed))
    if profile["other"] != "absent":
        oe = Node("otherEntity")
        oe.add_child(Node("entityName", content="other"))
        if profile["other"] == "with-description":
            oe.add_child(Node("entityDescription", content="described"))
        oe.add_child(Node("entityType", content="image"))
        d.add_child(oe)
    return d


def eval_proj(root):
    nodes = list(walk(root))
    idx = {id(n): i + 1 for i, n in enumerate(nodes)}

    def wc(s):
        return len(s.split()) if isinstance(s, str) else 0
    tree = {"name": [n.name for n in nodes], "kids": [[idx[id(c)] for c in n.children] for n in nodes],
            "wc": [wc(n.content) for n in nodes], "falsy": [not n.content for n in nodes],
            "orcid": [n.attributes.get("directory") == "https://orcid.org" for n in nodes],
            "hasContent": [n.content is not None for n in nodes], "titleWords": [wc(n.content) for n in nodes]}
    return tree, idx


def record_eval(root, judge, desc, node_level=False):
    from metapype.eml import evaluate
    from metapype.eml.evaluation_warnings import EvaluationWarning
    tree, idx = eval_proj(root)
    w = [SENTINEL]
    raised = ""
    try:
        with deadline(20):
            evaluate.tree(root, w)
            if node_level:
                for n in walk(root):
                    evaluate.node(n)
    except Exception as e:  # noqa: BLE001
        raised = type(e).__name__
    intact = len(w) >= 1 and w[0] is SENTINEL
    new = w[1:]
    if not raised and intact:
        # the list is the caller's: evaluating once more into the SAME list appends the same warnings again and touches none
        # of the entries it already holds
        before2 = list(w)
        try:
            with deadline(20):
                evaluate.tree(root, w)
            again = w[len(before2):]
            if any(a is not b for a, b in zip(w, before2)) or [(x[0], x[1], id(x[2])) for x in again] != [(x[0], x[1], id(x[2])) for x in new]:
                intact = False
        except Exception as e:  # noqa: BLE001
            raised = type(e).__name__
    shape = all(isinstance(x, tuple) and len(x) == 3 and isinstance(x[0], EvaluationWarning) and isinstance(x[1], str) and id(x[2]) in idx for x in new)
    obs = [[x[0].name, idx[id(x[2])]] for x in new] if shape else []
    return {"tree": tree, "obs": obs, "raised": raised, "intact": bool(intact), "shape": bool(shape), "judge": judge, "desc": desc}


def unambiguous(root):
    """The recommendations speak of 'the' abstract, 'the' physical ... : where an element that they single out occurs more
    than once the expected warnings depend on which one counts (not specified); everything else is order-independent."""
    single = {"dataset": ("abstract", "coverage", "intellectualRights"), "dataTable": ("physical", "numberOfRecords"),
              "physical": ("size", "authentication", "dataFormat", "recordDelimiter"), "dataFormat": ("textFormat",), "textFormat": ("recordDelimiter",)}
    for n in walk(root):
        for x in single.get(n.name, ()):
            if len(n.find_all_children(x)) > 1:
                return False
    return True


def shuffle_children(root, rnd):
    """Order-only mutation: shuffle the child lists the recommendations look into (the tree is then usually invalid, but
    it is still built from known names and what the recommendations imply for it does not depend on the order)."""
    for n in walk(root):
        if n.name in ("dataset", "dataTable", "physical", "textFormat", "dataFormat", "individualName", "creator", "contact", "associatedParty",
                      "metadataProvider", "personnel", "otherEntity", "keywordSet", "methodStep") and len(n.children) > 1:
            rnd.shuffle(n.children)


def w_profiles(idx):
    from metapype.eml import validate
    evs, invalid = [], 0
    t = G["t"]
    for i in idx:
        Node.store.clear()
        p = G["profiles"][i]
        G["hostile"] = (i % 4 == 1)
        G["hostile_off"] = i // 4
        root = build(p, t, i)
        try:
            validate.tree(root)
        except Exception:  # noqa: BLE001
            invalid += 1
            if p["group"] == "party" and p["party"]["email"] in ("empty-then-filled", "filled-then-empty"):
                # a mutation of a valid tree (one of several addresses blanked): the party recommendations are still well defined
                evs.append(record_eval(root, "warnings", {"profile": p, "tree": "one of two e-mail addresses blanked (not valid)"}))
            continue
        if i % 3 == 0:                  # also as the dataset of a complete eml document
            e = Node("eml")
            e.add_attribute("packageId", "p.1.1")
            e.add_attribute("system", "s")
            e.add_child(root)
            root = e
        how = "built"
        if i % 5 == 3:
            root = valtrace.reid(root)                 # every node carries the same id
            how = "all nodes share one id"
        elif i % 5 == 4:
            Node.store.clear()                         # the registry is not the tree
            how = "registry emptied after building"
        elif i % 5 == 0 and i % 3 == 1:
            root.add_namespace(None, "https://eml.ecoinformatics.org/eml-2.2.0")
            root.add_namespace("xsi", "http://www.w3.org/2001/XMLSchema-instance")
            how = "default + prefixed namespace on every node"
        elif i % 5 == 2:
            for x in walk(root):
                x.prefix = "eml"                       # qualified elements, as after importing <eml:dataset>...: rules go by element NAME
            root.add_namespace("eml", "https://eml.ecoinformatics.org/eml-2.2.0")
            how = "every node carries the prefix eml"
        evs.append(record_eval(root, "warnings", {"profile": p, "hostile_words": bool(G.get("hostile")), "tree": how}))
        if i % 2 == 0:
            Node.store.clear()
            G["hostile"] = (i % 8 == 2)
            r2 = build(p, t, i)
            shuffle_children(r2, random.Random(i))
            if unambiguous(r2):
                evs.append(record_eval(r2, "warnings", {"profile": p, "variant": "children shuffled"}, node_level=True))
    G["hostile"] = False
    return evs, invalid


def w_random(seeds):
    evs = []
    t = G["t"]
    for seed in seeds:
        Node.store.clear()
        rnd = random.Random(seed)
        el = rnd.choice(["eml", "dataset", "dataTable", "project", "methods", "otherEntity", "creator", "studyExtent", "maintenance"])
        g = tables.TreeGen(t, seed, max_depth=5, breadth=rnd.randint(1, 6), text=lambda r: words(r.choice([1, 3, 4, 5, 19, 20, 21]), r.randint(0, 7)))
        root, errs = g.gen_valid(el)
        if not errs:
            phys = [n for n in walk(root) if n.name in ("dataTable",) and len(n.find_all_children("physical")) > 1]
            multi = any(len(n.find_all_children(x)) > 1 for n in walk(root) if n.name == "physical" for x in ("size", "dataFormat"))
            if not phys and not multi:
                evs.append(record_eval(root, "warnings", {"base": "generated-valid", "element": el, "seed": seed}))
        # totality on mutations of the same tree (need not be valid)
        for _ in range(3):
            valtrace.mutate(root, rnd, t, ["drop", "duplicate", "swap", "rename-misplaced", "corrupt-content-unicode", "clear-content", "set-content-on-empty",
                                           "add-misplaced-child", "remove-attr", "corrupt-attr"])
        if all(n.name in t.node_map for n in walk(root)):
            evs.append(record_eval(root, "totality", {"base": "mutated", "element": el, "seed": seed}, node_level=True))
        # order / omission mutations keep the expected warnings well defined: judged in full
        if not errs:
            Node.store.clear()
            g2 = tables.TreeGen(t, seed, max_depth=5, breadth=g.breadth, text=g.text)
            g2.rnd = random.Random(seed)
            r3, e3 = tables.TreeGen(t, seed, max_depth=5, breadth=g.breadth, text=g.text).gen_valid(el)
            for _ in range(3):
                valtrace.mutate(r3, rnd, t, ["swap", "swap", "drop", "clear-content"])
            shuffle_children(r3, rnd)
            if unambiguous(r3) and all(n.name in t.node_map for n in walk(r3)):
                evs.append(record_eval(r3, "warnings", {"base": "generated-valid then order/omission mutations", "element": el, "seed": seed}, node_level=True))
    return evs


def special_cases(known=()):
    """Known-name trees that are not valid: empty descriptions under the listed parents, parentless
    description, paras without text - totality, and the description warnings."""
    evs = []
    listed = ("maintenance", "methodStep", "qualityControl", "studyExtent", "samplingDescription", "connectionDefinition", "designDescription", "procedureStep")
    # an empty description under EVERY known element: only the listed parents warrant a warning
    for parent in list(listed) + sorted(x for x in known if x not in listed and x != "description"):
        Node.store.clear()
        p = Node(parent)
        p.add_child(Node("description"))
        evs.append(record_eval(p, "warnings", {"case": "empty description under " + parent}, node_level=True))
        p2 = Node(parent)
        d = Node("description", content="some words here")
        p2.add_child(d)
        evs.append(record_eval(p2, "warnings", {"case": "non-empty description under " + parent}, node_level=True))
    for build_ in (lambda: Node("description"), lambda: Node("description", content="x"), lambda: Node("title", content="one two"),
                   lambda: Node("para"), lambda: Node("abstract")):
        Node.store.clear()
        evs.append(record_eval(build_(), "totality", {"case": "parentless " + build_().name}, node_level=True))
    return evs


def run(rep, tier, seed):
    t = tables.get_tables(rep)
    G["t"] = t
    r = run_tlc("MC_EvalPlans", cfg=os.path.join(SPEC, "MC_EvalPlans.cfg"), timeout=600)
    if not r.ok:
        raise MachineryError("MC_EvalPlans failed:\n" + r.out[-1500:])
    rep.add_tlc(r, "MC_EvalPlans (dataset profiles, every threshold at -1/0/+1)")
    profiles = [p["profile"] for p in r.json_lines() if p.get("k") == "EV"]
    if tier == "quick":
        rnd = random.Random(seed)
        keep = [p for p in profiles if p["group"] != "dataset"]
        ds = [p for p in profiles if p["group"] == "dataset"]
        profiles = keep + rnd.sample(ds, 1500)
    G["profiles"] = profiles
    evs, invalid = [], 0
    for chunk, inv in parallel(w_profiles, range(len(profiles))):
        evs += chunk
        invalid += inv
    nrand = 150 if tier == "quick" else 4000
    evs += [e for chunk in parallel(w_random, [seed * 3331 + i for i in range(nrand)]) for e in chunk]
    evs += special_cases(set(t.node_map))
    strip = lambda e: {k: v for k, v in e.items() if k != "desc"}  # noqa: E731
    rejects, rr = judge_traces([strip(e) for e in evs], PID, module="TraceEval", cfg="TraceValidate.cfg", label="eval", timeout=3000)
    rep.cov["states"] += rr.distinct or 0
    rep.cov["transitions"] += rr.generated or 0
    rep.cov["traces_validated_against_impl"] = len(evs)
    seen_codes = {}
    for e in evs:
        for c, _ in e["obs"]:
            seen_codes[c] = seen_codes.get(c, 0) + 1
    rep.notes.update(profiles=len(profiles), profiles_discarded_not_valid=invalid, random_trees=nrand, events=len(evs), warning_codes_observed=seen_codes)
    for rj in rejects:
        e = evs[rj["event"] - 1]
        for cl in rj["clauses"]:
            key = cl if cl != "raised" else f"raised:{e['raised']}"
            rep.violation(f"{PID}:{key}", f"evaluate clause {cl}; {rj.get('detail')}; case {e['desc']}"[:600], {"kind": "evaluate", "desc": e["desc"], "clause": cl, "tree": e["tree"], "observed": e["obs"]})
    rep.sample({"profile": profiles[len(profiles) // 2]})
    rep.cov["evaluations"] = len(evs)
    rep.cov["distinct_nontrivial"] = len(profiles) - invalid
    rep.cov["rule"] = "distinct = dataset profiles enumerated by TLC that yield a valid tree; plus rule-guided random valid trees; mutations judged for totality only"
    rep.assumptions += ["word boundaries: SP/TAB/LF/NBSP; title words separated by spaces", "several physical / size / dataFormat children, and which of several abstracts counts, are not generated",
                        "ORCID is recognised by the directory https://orcid.org exactly"]
