"""C04 - validation is total: only rule errors escape, collecting mode never raises.

code -> spec.  Drivers (seeded): (b) adversarial single/double/triple mutations of valid EML
trees (the repository fixture and rule-guided generated trees): drop, duplicate, swap, rename
to unknown / misplaced names, corrupt content with every content class and with hostile
Unicode, add / remove / corrupt attributes (also non-string values); (c) random trees over
known and unknown names; (d) chains up to depth 100.  validate.node on every node and
validate.tree on the root, both modes, under a watchdog; every outcome is judged by
TraceValidate.tla (OutcomeOK: the spec has no action for any other outcome).
"""
import random

from harness.common import MachineryError, parallel, judge_traces
from harness import tables, valtrace, c02
from harness.tables import walk

PID = "C04"
G = {}


def random_tree(rnd, t, size):
    from metapype.model.node import Node
    known = list(t.node_map)
    pool = known + ["zzUnknown", "Title", "", "metadata", "metadata", "para", "section"]
    nodes = [Node(rnd.choice(pool))]
    for _ in range(size - 1):
        p = rnd.choice(nodes)
        c = Node(rnd.choice(pool))
        if rnd.random() < 0.5:
            c.content = rnd.choice(valtrace.UNICODE_POOL + [c02.gen(rnd.choice([c for c in c02.GEN if c != "SURROGATE"]), "", rnd)])
        if rnd.random() < 0.3:
            c.add_attribute(rnd.choice(["id", "scope", "system", "zz", "lang", "directory"]), rnd.choice(valtrace.UNICODE_POOL + ["document"]))
        p.add_child(c)
        nodes.append(c)
    return nodes[0]


ODD_CHARS = ["\u00b2", "\u2460", "\u00bd", "\u4e94", "\u0663", "\uff13", "\U0001d7ce", "\u2167", "\u3007", "\u2212", "\uff0e", "\uff1a", "\uff0d",
             "\u00a0", "\u2028", "\x1f", "\x00", "_", "+", " ", "\u0301", "\U0001f600", "\u0e51", "\u1369", "\u2070", "\u2080"]
TEMPLATES = ["2020", "12", "-12.5", "1e5", "12:30:45", "12:30:45.123", "2020-02-29", "http://h.example/p", "180", "0"]


def perturbed():
    """Canonical typed forms with one position replaced by, or one position preceded by, a character that Python's
    str predicates and parsers disagree about (isdigit-but-not-decimal, numeric-only, non-ASCII decimal digits,
    look-alike signs and separators, controls): the strings on which a hand-rolled pre-check and the parser it
    guards can part ways."""
    out = []
    for tpl in TEMPLATES:
        for i in range(len(tpl) + 1):
            for ch in ODD_CHARS:
                if i < len(tpl):
                    out.append(tpl[:i] + ch + tpl[i + 1:])
                out.append(tpl[:i] + ch + tpl[i:])
        out.append(tpl * 2)
    for ch in ODD_CHARS:
        for k in (1, 2, 4, 8, 10):
            out.append(ch * k)
    return sorted(set(out))


def w_sweep(elements):
    """(e) systematic sweep: every known element x hostile contents x hostile attribute values,
    as a single node and with one (valid-named) child, so every content/attribute error branch
    of every rule is driven in both modes."""
    from metapype.model.node import Node
    evs = []
    t = G["t"]
    rnd = random.Random(17)
    # (strings with a lone surrogate included: a JSON document can carry one, and the library has an error of its own for them)
    pool = list(valtrace.UNICODE_POOL) + [None] + [c02.gen(c, "", rnd) for c in c02.GEN] + ["lone\ud800surrogate", "\udfff"] \
        + [c02.gen("INT", b, rnd) for b in c02.INT_BUCKET] + [c02.gen("DEC", b, rnd) for b in c02.DEC_BUCKET]
    odd = perturbed()
    for ei, el in enumerate(elements):
        unit = t.node_map[el]
        spec = t.rules.get(unit)
        attrs = list(spec[0]) if spec else []
        kinds = (spec[2].get("content_rules") or []) if spec and len(spec) > 2 and isinstance(spec[2], dict) else []
        typed = any(k not in ("emptyContent", "nonEmptyContent", "strContent", "anyContent") for k in kinds)
        # every perturbed string on the elements with a typed content rule, a rotating tenth of them elsewhere
        extra = odd if typed else odd[(hash(el) if False else sum(map(ord, el))) % 10::10]
        root = Node("zzSweepRoot")
        for i, content in enumerate(pool + extra):
            n = Node(el)
            n.content = content
            if attrs and i < len(pool):
                a = attrs[i % len(attrs)]
                n.add_attribute(a, pool[(i * 7 + 3) % len(pool)])
            if i % 3 == 0 and spec:
                names = t.dfas[unit].sigma
                if names:
                    nm = names[i % len(names)]
                    n.add_child(Node("zzForeignChild" if nm.startswith("~") else nm))
            root.add_child(n)
        # hostile attribute NAMES (the statement says "any attributes"): look-alikes of declared names, separators, empties
        hostile = ["a:b:c", "::", ":", "", " ", "xml:lang", "{u}x", "}", "x\x00", "\u00e9", "a" * 1000, "%s", "{0}", "__class__", "a b", "\u202e"]
        for d in attrs[:3]:
            hostile += [d + ":", ":" + d, "x:" + d, "x:y:" + d, d + " ", d.upper()]
        for a in attrs[:4]:             # values of any type on DECLARED attributes (a JSON model may carry arrays and objects)
            for v in ([], {}, ["document"], {"k": "v"}, b"x", 1.5, None, True, (), frozenset(), 10 ** 30):
                n = Node(el)
                n.add_attribute(a, v)
                root.add_child(n)
        for hn in hostile:
            n = Node(el)
            n.add_attribute(hn, "v")
            for a in attrs:
                n.add_attribute(a, "v")
            root.add_child(n)
        ev = valtrace.observe_tree(root)
        ev["desc"] = {"base": "sweep", "element": el, "contents": len(pool) + len(extra), "hostile_attribute_names": len(hostile)}
        evs.append(ev)
        Node.store.clear()
    return evs


VERY_WIDE = [("coverage", ["geographicCoverage"]), ("coverage", ["geographicCoverage", "temporalCoverage", "taxonomicCoverage"]), ("access", ["allow"]), ("access", ["allow", "deny"]),
             ("dataset", ["dataTable"]), ("attributeList", ["attribute"]), ("abstract", ["para"]), ("abstract", ["section", "para"]), ("keywordSet", ["keyword"]),
             ("methods", ["methodStep"]), ("zzUnknownParent", ["zzUnknown"]), ("additionalMetadata", ["metadata"])]


def w_very_wide(jobs):
    """Shallow trees with more children than the interpreter allows stack frames: width is not depth, the claim covers it."""
    from metapype.model.node import Node
    evs = []
    for (kind, names, width) in jobs:
        Node.store.clear()
        root = Node(kind)
        for i in range(width):
            root.add_child(Node(names[i % len(names)]))
        ev = valtrace.observe_tree(root, per_node=False)
        ev["desc"] = {"base": "very wide", "kind": kind, "children": width, "names": names}
        evs.append(ev)
        Node.store.clear()
    return evs


def w_orders(elements):
    """Every known element with a valid child sequence put OUT OF ORDER: all permutations of the shortest non-empty accepted
    sequences (up to 5 children), and for a longer accepted walk its reversal, rotations and adjacent swaps; also with one
    child doubled / dropped.  Whatever the verdict, only rule errors and only through the list."""
    import itertools
    from metapype.model.node import Node
    from harness import c01
    t = G["t"]
    evs = []
    for el in elements:
        unit = t.node_map[el]
        d = t.dfas.get(unit)
        if d is None or unit not in t.rules:
            continue
        sig = [a for a in d.sigma if not a.startswith("~")]
        # breadth-first: accepted words of increasing length
        frontier, found = [((), d.init)], []
        for _ in range(6):
            nxt = []
            for w, st in frontier:
                for a in sig:
                    w2, s2 = w + (a,), d.delta[st][a]
                    nxt.append((w2, s2))
                    if d.out[s2] == "ACCEPT" and len(found) < 3 and len(set(w2)) >= min(2, len(sig)):
                        found.append(w2)
            frontier = nxt[:400]
            if len(found) >= 3:
                break
        variants = set()
        for w in found:
            if len(w) <= 5:
                variants |= set(itertools.permutations(w))
            else:
                variants |= {tuple(reversed(w)), w[1:] + w[:1], w[-1:] + w[:-1]}
                variants |= {w[:i] + (w[i + 1], w[i]) + w[i + 2:] for i in range(len(w) - 1)}
            variants |= {w + (w[0],), w[1:], w[:-1], (w[-1],) + w}
        root = Node("zzOrders")
        for w in sorted(variants)[:150]:
            root.add_child(c01.realise(unit, el, list(w), t.rules))
        ev = valtrace.observe_tree(root)
        ev["desc"] = {"base": "child orders", "element": el, "sequences": len(variants)}
        evs.append(ev)
        Node.store.clear()
    return evs


def stale_parent_cases():
    """Trees whose ROOT carries a parent pointer to a node that does not list it (a copy of an inner branch keeps the original's
    parent, remove_child leaves the pointer, the constructor takes parent= without attaching): still trees."""
    from metapype.model.node import Node
    evs = []
    for nm in ("zzUnknownRoot", "dataset", "title", "metadata", "creator", ""):
        for way in ("copy-of-inner-branch", "detached-with-remove_child", "constructor-parent-argument", "parent-setter"):
            Node.store.clear()
            holder = Node("eml")
            if way == "constructor-parent-argument":
                root = Node(nm, parent=holder)
            else:
                root = Node(nm)
            root.add_child(Node("title", content="t"))
            root.add_child(Node("zzUnknownChild"))
            if way == "copy-of-inner-branch":
                holder.add_child(root)
                root = root.copy()
            elif way == "detached-with-remove_child":
                holder.add_child(root)
                holder.remove_child(root)
            elif way == "parent-setter":
                root.parent = holder
            ev = valtrace.observe_tree(root)
            ev["desc"] = {"base": "root with a stale parent pointer", "root": nm, "how": way}
            evs.append(ev)
    # two "too many" problems next to each other in the walk with nothing reported in between: a metadata element with two
    # children (the metadata branch reports it), then a parent with a sequence child over its maximum - in both orders
    for order in ((0, 1), (1, 0), (0, 0, 1), (1, 1, 0)):
        Node.store.clear()
        root = Node("zzRootOfTwoOverflows")
        for k in order:
            am = Node("additionalMetadata")
            if k == 0:
                md = Node("metadata")
                md.add_child(Node("zzA"))
                md.add_child(Node("zzB"))
                am.add_child(md)
            else:
                am.add_child(Node("metadata"))
                am.add_child(Node("metadata"))
            root.add_child(am)
        ev = valtrace.observe_tree(root)
        ev["desc"] = {"base": "adjacent occurrence overflows (metadata with two children / two metadata children)", "order": list(order)}
        evs.append(ev)
    # parent POINTERS that form a loop although the child lists are a finite tree: a pair turned upside down through the public
    # API (remove_child leaves the child's pointer; the old parent becomes the child's child)
    for outer, inner in (("taxonomicClassification", "taxonomicClassification"), ("metadata", "zzAny")):
        Node.store.clear()
        p = Node(outer)
        c = Node(inner)
        p.add_child(c)
        p.remove_child(c)
        c.add_child(p)
        c.add_child(Node("title", content="t"))
        ev = valtrace.observe_tree(c)
        ev["desc"] = {"base": "parent pointers form a loop (pair turned upside down with remove_child / add_child)", "outer": outer, "inner": inner}
        evs.append(ev)
    Node.store.clear()
    return evs


def w_cases(seeds):
    from metapype.model.node import Node
    evs = []
    t = G["t"]
    for seed in seeds:
        rnd = random.Random(seed)
        mode = seed % 10
        desc = {"seed": seed}
        if mode in (0, 1):
            root = valtrace.fixture_root()
            desc["base"] = "fixture"
        elif mode in (2, 3, 4, 5, 6):
            el = rnd.choice(["eml", "dataset", "dataTable", "methods", "project", "coverage", "creator", "abstract", "attributeList",
                             "otherEntity", "physical", "attribute", "taxonomicCoverage", "access"])
            g = tables.TreeGen(t, seed, max_depth=rnd.randint(3, 6), breadth=rnd.randint(2, 8))
            root = g.gen(el)
            desc.update(base="generated", element=el)
        elif mode in (7, 8):
            root = random_tree(rnd, t, rnd.randint(1, 60))
            desc["base"] = "random"
        elif seed % 20 == 19:
            # a very wide parent: hundreds of children, valid and invalid mixed (positions and counts above 256)
            from metapype.model.node import Node as _N
            kind = rnd.choice(["attributeList", "abstract", "access", "keywordSet", "dataset"])
            root = _N(kind)
            pool = {"attributeList": ["attribute"], "abstract": ["para", "section", "markdown"], "access": ["allow", "deny"], "keywordSet": ["keyword"],
                    "dataset": ["title", "creator", "keywordSet", "zzUnknown"]}[kind]
            for i in range(rnd.choice([257, 300, 600])):
                c = _N(rnd.choice(pool), content=rnd.choice([None, "x", "two words"]))
                root.add_child(c)
            desc.update(base="wide", kind=kind, children=len(root.children))
        else:
            kind = rnd.choice(["section", "taxon", "list", "unknown"])
            depth = rnd.choice([5, 30, 60, 100])
            root = valtrace.chain(kind, depth)
            desc.update(base="chain", kind=kind, depth=depth)
        muts = []
        if mode <= 6 or mode == 9:
            for _ in range(rnd.choice([1, 1, 2, 2, 3])):
                m = valtrace.mutate(root, rnd, t)
                if m:
                    muts.append(m)
        desc["mutations"] = muts
        if seed % 7 == 1:
            Node.store.clear()                         # a live tree none of whose nodes is registered
            desc["tree"] = "registry emptied after building"
        elif seed % 7 == 2:
            try:
                root = valtrace.reid(root)             # every node carries the same id
                desc["tree"] = "all nodes share one id"
            except Exception:  # noqa: BLE001 - not representable in JSON: keep the tree as built
                pass
        nn = sum(1 for _ in walk(root))
        ev = valtrace.observe_tree(root, per_node=(nn <= 700))
        ev["desc"] = desc
        evs.append(ev)
        Node.store.clear()
    return evs


def run(rep, tier, seed):
    from harness.world import Node  # noqa: F401
    t = tables.get_tables(rep)
    G["t"] = t
    n = 400 if tier == "quick" else 12000
    evs = [e for chunk in parallel(w_cases, [seed * 1000003 + i for i in range(n)]) for e in chunk]
    evs += [e for chunk in parallel(w_sweep, sorted(t.node_map)) for e in chunk]
    evs += stale_parent_cases()
    evs += [e for chunk in parallel(w_orders, sorted(x for x in t.node_map if x != "metadata")) for e in chunk]
    widths = [1100, 2500] if tier == "quick" else [1100, 2500, 6000]
    evs += [e for chunk in parallel(w_very_wide, [(k, nm, w) for (k, nm) in VERY_WIDE for w in widths], chunk=1) for e in chunk]
    strip = lambda e: {k: v for k, v in e.items() if k != "desc"}  # noqa: E731
    rejects, r = judge_traces([strip(e) for e in evs], PID, module="TraceValidate", cfg="TraceValidate.cfg", label="trees", timeout=3000)
    rep.cov["traces_validated_against_impl"] = len(evs)
    rep.cov["states"] += r.distinct or 0
    rep.cov["transitions"] += r.generated or 0
    nvalid = sum(len(e["name"]) * 2 + 2 for e in evs)
    # coverage of the error branches exercised, by code, in the code (both modes)
    codes = {}
    excs = {}
    for e in evs:
        for lst in e["nodeErrs"]:
            for c in lst:
                codes[c] = codes.get(c, 0) + 1
        for o in e["nodeFF"]:
            if o["kind"] != "ok":
                excs[o["exc"]] = excs.get(o["exc"], 0) + 1
    rep.notes.update(trees=len(evs), validations=nvalid, error_codes_exercised=codes, failfast_exceptions_exercised=excs,
                     deepest_chain=max((e["desc"].get("depth", 0) for e in evs), default=0))
    for rj in rejects:
        e = evs[rj["event"] - 1]
        for cl in rj["clauses"]:
            if cl.startswith(("tree-errors", "tree-failfast")):
                continue          # C05's clauses
            # which exception / where
            detail = ""
            exc = ""
            if cl.startswith("node:"):
                for i in range(len(e["name"])):
                    o1, o2 = e["nodeFF"][i], e["nodeRaised"][i]
                    if (o1["kind"] in ("other", "timeout") and "failfast" in cl or "timeout" in cl) or (o2["kind"] != "ok" and "collecting" in cl):
                        o = o1 if "failfast" in cl or (o1["kind"] == "timeout") else o2
                        exc = o["exc"]
                        detail = f"node {i + 1} <{e['name'][i]}>: {o}"
                        break
                    if "modes-disagree" in cl and o2["kind"] == "ok" and o1["kind"] in ("ok", "rule") and (o1["kind"] == "ok") != (not e["nodeErrs"][i]):
                        detail = f"node {i + 1} <{e['name'][i]}>: fail-fast {o1}, collecting codes {e['nodeErrs'][i]}"
                        break
            else:
                o = e["ff"] if "failfast" in cl else e["craised"]
                exc = o["exc"]
                detail = f"tree: ff {e['ff']} collecting {e['craised']} entries {e['coll'][:4]}"
            rep.violation(f"{PID}:{cl}" + (f":{exc}" if exc else ""), detail + f"; case {e['desc']}", {"kind": "tree", "desc": e["desc"], "event": strip(e)})
    rep.sample({"desc": evs[1]["desc"], "nodes": len(evs[1]["name"])})
    rep.sample({"desc": evs[9]["desc"], "nodes": len(evs[9]["name"])})
    rep.cov["evaluations"] = nvalid
    rep.cov["distinct_nontrivial"] = len({str(e["desc"]) for e in evs})
    rep.cov["rule"] = "one event per tree (per-node and whole-tree validation, both modes); distinct by base + mutation list; counts of error codes / exception kinds exercised are in the evidence"
    rep.assumptions += ["nesting depth <= 100 (deeper trees exhaust the interpreter's recursion limit: outside the claim)",
                        "element names and content are str or None (set through the public API); attribute values may be any object",
                        "strings with lone surrogates (what a JSON document can carry) are part of 'any tree whatsoever': judged for totality like any other text"]
