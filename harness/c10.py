"""C10 - the rule table is closed and consistent with the known element names.

MC_Table (TLC) evaluates the four clauses as constant expressions over the generated tables
(complete enumeration): every element resolves to an existing rule; every rule is well-formed
(RuleJson.tla); every known element is satisfiable (least fixpoint, with a witness child word
and content class per element); every child name a reachable rule permits is a known element.
spec -> code: the witness tree of every element must pass validate.tree in both modes;
rule.get_rule constructs for every name and exposes the file's sections; rules_dict == file.
"""
import json
import os
import random

from harness import common
from harness.common import MachineryError, run_tlc, SPEC, workdir, REPO
from harness.c09 import load_log_all
from harness import gen_tables, c01, c02

PID = "C10"


def run(rep, tier, seed):
    from harness.world import Node
    from metapype.eml import rule, validate
    wd = workdir(PID, "mc", wipe=True)
    rules, node_map, implemented, loaded = gen_tables.write_rule_table(wd)
    out = os.path.join(wd, "table.out")
    r = run_tlc("MC_Table", cfg=os.path.join(SPEC, "MC_Table.cfg"), stdout_path=out, timeout=1200, lib=wd, workers=1)
    if not r.ok:
        raise MachineryError("MC_Table failed:\n" + r.out[-2000:])
    rep.add_tlc(r, "MC_Table.cfg (clauses 1-4 as constant expressions over the generated tables)")
    log = load_log_all(out)
    N = log["N"][0]
    rep.notes["table"] = N
    if N["elements"] != len(node_map) or N["rules"] != len(rules):
        raise MachineryError(f"generated table incomplete: {N} vs {len(node_map)} elements / {len(rules)} rules")
    for v in log.get("V", []):
        rep.violation(f"{PID}:{v['clause']}:{v['subject']}@{v['detail']}",
                      {"unresolved-rule": f"element {v['subject']} maps to rule {v['detail']} which rules.json does not define",
                       "ill-formed-rule": f"rule {v['subject']} is not well-formed: {v['detail']}",
                       "unknown-child": f"rule {v['detail']} permits child {v['subject']!r}, which is not a known element name (single-node validation allows it, whole-tree validation can never accept it)",
                       "unsatisfiable-element": f"no tree rooted at {v['subject']} ({v['detail']}) can pass validation"}[v["clause"]],
                      {"kind": "table", "clause": v["clause"], "subject": v["subject"], "detail": v["detail"]})
    W = {w["elem"]: w for w in log.get("W", [])}
    rnd = random.Random(seed)

    def build(e, depth=0):
        w = W[e]
        p = c01.parent_for(w["rule"], e, rules)
        cls = w["content"]["cls"]
        if cls == "ENUM":
            p.content = rules[w["rule"]][2]["content_enum"][0]
        else:
            p.content = c02.gen(cls, w["content"]["bucket"], rnd)
        if depth > 12:
            raise MachineryError(f"witness of {e} deeper than 12")
        for cname in w["word"]:
            p.add_child(build(cname, depth + 1))
        return p

    nW = 0
    for e in sorted(W):
        try:
            t = build(e)
        except KeyError as ex:
            raise MachineryError(f"witness of {e} uses {ex} which has no witness")
        ff = None
        try:
            validate.tree(t)
        except Exception as ex:  # noqa: BLE001
            ff = ex
        errs = []
        craised = None
        try:
            validate.tree(t, errs)
        except Exception as ex:  # noqa: BLE001
            craised = ex
        nW += 1
        if ff is not None or craised is not None or errs:
            rep.violation(f"{PID}:witness-rejected:{e}",
                          f"the spec's witness tree for {e} (children {W[e]['word']}, content class {W[e]['content']['cls']}) does not pass validate.tree: "
                          f"fail-fast {ff!r}; collecting raised {craised!r} codes {[(x[0].name, x[2].name) for x in errs][:5]}",
                          {"kind": "witness", "element": e, "word": W[e]["word"], "content_class": W[e]["content"]})
        Node.store.clear()
    rep.notes["witness_trees_validated_both_modes"] = nW
    # closure on the code: whatever single-node validation lets pass as a child, whole-tree validation must be able to accept.
    # Every element's witness gets one child with a name that is not a known element: either the node itself objects to the
    # child, or the tree walk does not object to it either (the element named metadata: content not looked at).
    nP = 0
    for e in sorted(W):
        for where in ("last", "first", "last-prefixed", "{u}", "x}", "x:", "Cap", " pad"):
            try:
                t = build(e)
            except Exception:  # noqa: BLE001 - reported above
                break
            if where in ("last", "first", "last-prefixed"):
                probe = Node("zzNotAKnownElement")
                if where == "last-prefixed":           # a qualified foreign element, as an XML import of <stmml:x> leaves it
                    probe.prefix = "stmml"
                    probe.add_namespace("stmml", "http://www.xml-cml.org/schema/stmml-1.1")
                t.add_child(probe, index=0 if where == "first" else None)
            else:
                # a child the rule DOES list, renamed in place into a look-alike that is not a known element
                if not t.children:
                    continue
                probe = t.children[0]
                nm = probe.name
                probe.name = {"{u}": "{u}" + nm, "x}": "x}" + nm, "x:": "x:" + nm, "Cap": nm.capitalize(), " pad": nm + " "}[where]
                if probe.name in node_map:
                    continue
            nerrs, terrs = [], []
            try:
                validate.node(t, nerrs)
                validate.tree(t, terrs)
            except Exception as ex:  # noqa: BLE001 - totality is C04's business
                Node.store.clear()
                continue
            nP += 1
            node_objects = any(x[0].name in ("CHILD_NOT_ALLOWED", "MAX_OCCURRENCE_EXCEEDED", "MIN_OCCURRENCE_UNMET", "MIN_CHOICE_UNMET", "MAX_CHOICE_EXCEEDED") for x in nerrs)
            tree_objects = [x[0].name for x in terrs if len(x) > 2 and x[2] is probe]
            if not node_objects and tree_objects:
                rep.violation(f"{PID}:node-allows-what-tree-cannot-accept:{e}",
                              f"validate.node({e}) raises no objection to a child named {probe.name!r} ({where}), validate.tree reports {tree_objects} for that child",
                              {"kind": "closure-probe", "element": e, "position": where})
            Node.store.clear()
    rep.notes["closure_probes"] = nP
    # the loader and the rule objects expose exactly the file's declarations
    if loaded != rules:
        diff = sorted(set(loaded) ^ set(rules)) or [k for k in rules if rules[k] != loaded.get(k)][:5]
        rep.violation(f"{PID}:loader:rules_dict-differs-from-file", f"differs at {diff}", {"kind": "loader", "rules": diff})
    nG = 0
    for e in sorted(node_map):
        nG += 1
        try:
            ro = rule.get_rule(e)
        except Exception as ex:  # noqa: BLE001
            if node_map[e] in rules:
                rep.violation(f"{PID}:get_rule-raised:{e}", repr(ex), {"kind": "get_rule", "element": e})
            continue
        spec = rules.get(node_map[e])
        if spec is None:
            continue
        if ro.attributes != spec[0] or ro.children != spec[1] or ro.content_rules != spec[2].get("content_rules") \
                or ro.content_enum != spec[2].get("content_enum", []) or ro.name != node_map[e]:
            rep.violation(f"{PID}:get_rule-sections-differ:{e}", f"rule object of {e} does not expose the table's sections", {"kind": "get_rule", "element": e})
    rep.notes["get_rule_calls"] = nG
    # the shipped table must still be the file AFTER the library has been used on invalid input (error paths included)
    import copy as _copy
    for e in sorted(node_map):
        spec = rules.get(node_map[e])
        if not spec:
            continue
        for variant in range(3):
            n = Node(e)
            n.content = [None, "zq text", "-1"][variant]
            for a, v in spec[0].items():
                n.add_attribute(a, "zzNotListed" if len(v) > 1 else "v")
            n.add_attribute("zzForeign", "1")
            n.add_child(Node("zzUnknownChild"))
            for errs in (None, []):
                try:
                    validate.tree(n, errs)
                except Exception:  # noqa: BLE001 - only the table is of interest here
                    pass
            try:
                validate.prune(n, strict=bool(variant % 2))
            except Exception:  # noqa: BLE001
                pass
        Node.store.clear()
    after = {k: v for k, v in rule.rules_dict.items()}
    if after != rules:
        changed = [k for k in rules if after.get(k) != rules[k]][:5]
        rep.violation(f"{PID}:table-changed-by-use:{changed[0] if changed else '?'}", f"after validating invalid nodes rule.rules_dict no longer equals rules.json: {changed}; e.g. {after.get(changed[0]) if changed else None}",
                      {"kind": "table-after-use", "rules": changed})
    bad_now = [r for r in rules if any(not (isinstance(v, list) and v and isinstance(v[0], bool)) for v in after.get(r, [{}])[0].values())]
    if bad_now:
        rep.violation(f"{PID}:ill-formed-rule-after-use:{bad_now[0]}", f"attribute specs no longer led by a required flag: {bad_now[:5]}", {"kind": "table-after-use", "rules": bad_now[:5]})
    rep.sample({"element": "dataset", "witness": W.get("dataset")})
    rep.sample({"element": "eml", "witness": W.get("eml")})
    rep.cov["states"] = max(rep.cov["states"], 1)
    rep.cov["evaluations"] = len(node_map) + len(rules) + nW + nG
    rep.cov["distinct_nontrivial"] = len(node_map) + len(rules)
    rep.cov["rule"] = "every element-name map entry, every rule of rules.json, every child name of every reachable rule (complete enumeration of the shipped tables)"
    rep.cov["exhaustive"] = True
    rep.assumptions += ["rules.json and rule.node_mappings are read from the working tree at check time",
                        "implemented content kinds are observed by probing the code with a synthetic rule"]
