"""Binding between abstract states (spec/Forest.tla) and real metapype objects.

World holds the real Node objects in creation order (abstract id = position, 1-based),
applies abstract operations to them through the public API only, and projects the real
state back (pi).  One projection function is used by both binding directions.
"""
import json

from harness.common import use_repo, MachineryError

use_repo()
from metapype.model.node import Node, Shift  # noqa: E402

WATCHDOG_S = 5          # seconds of CPU time


class OperationDidNotTerminate(Exception):
    """Raised by the harness watchdog, never by the library."""


NOSTR = "~"
FIELDS = ("name", "kids", "ns", "content", "tail", "prefix", "attrs", "extras", "store")


class Atoms:
    """Interning of arbitrary Python strings: equal atom <=> identical string. 0 = None."""

    def __init__(self):
        self.of = {}
        self.table = [None]

    def atom(self, s):
        if s is None:
            return 0
        if not isinstance(s, str):
            s = ("<non-str>", repr(s))
        a = self.of.get(s)
        if a is None:
            a = len(self.table)
            self.of[s] = a
            self.table.append(s)
        return a

    def text(self, a):
        return self.table[a]


def canon(state, fields=None):
    """Canonical hashable form of a state dict as printed by TLC or produced by pi."""
    out = []
    for f in (fields or FIELDS):
        if f not in state:
            continue
        v = state[f]
        if f == "ns":
            v = tuple(tuple(sorted(tuple(p) for p in m)) for m in v)
        elif f == "store":
            v = tuple(sorted(v))
        elif f in ("attrs", "extras"):
            v = tuple(tuple(tuple(kv) for kv in m) for m in v)
        elif f == "kids":
            v = tuple(tuple(k) for k in v)
        else:
            v = tuple(v)
        out.append((f, v))
    return tuple(out)


class World:
    # model prefix -> the prefix really used (a bound prefix is any XML name: the model's "x" can be realised by a non-ASCII one)
    prefix_alias = {}

    def __init__(self, atoms=None, text_of=None, clear=True):
        if clear:
            Node.store.clear()    # harness-side isolation of the process-wide registry
        self.nodes = []           # abstract id i <-> self.nodes[i-1]
        self.idx = {}             # id(node object) -> abstract id
        self.atoms = atoms or Atoms()
        # MC text atoms are small ints; map them to real strings deterministically
        # atom 2 is the EMPTY STRING: "" and None must be told apart by everything that compares or copies text
        self.text_of = text_of or (lambda a: None if a == 0 else ("" if a == 2 else f"text-{a}"))

    # ---------------------------------------------------------------- bookkeeping
    def track(self, node):
        self.nodes.append(node)
        self.idx[id(node)] = len(self.nodes)
        return len(self.nodes)

    def track_tree(self, root):
        """Register a freshly created subtree in pre-order (the order the code creates it)."""
        first = self.track(root)
        for c in root.children:
            self.track_tree(c)
        return first

    def n(self, i):
        return self.nodes[i - 1]

    def ident(self, node):
        if node is None:
            return 0
        return self.idx.get(id(node), -99)   # -99: an object the harness never saw

    # ---------------------------------------------------------------- construction
    explicit_ids = None        # optional list: ids handed to the constructor by create(), in order (callers may choose their ids)

    def new(self, name, id=None):
        if id is None and self.explicit_ids:
            id = self.explicit_ids[len(self.nodes) % len(self.explicit_ids)] if len(self.nodes) < len(self.explicit_ids) else None
        return self.track(Node(name) if id is None else Node(name, id=id))

    @classmethod
    def build(cls, state, ns_via_api=False, **kw):
        """Constructively build real objects matching an abstract state.
        ns_via_api: establish namespace maps through add_namespace (realistic dict aliasing
        between parents and children) instead of assigning fresh dicts."""
        ids = kw.pop("ids", None)      # optional i -> explicit node id (callers may hand the constructor any id, also a used one)
        w = cls(**kw)
        n = len(state["kids"])
        names = state.get("name") or ["a"] * n
        for i in range(n):
            w.new(names[i], ids(i + 1) if ids else None)
        for i in range(n):
            node = w.n(i + 1)
            if "content" in state:
                node.content = w.text_of(state["content"][i])
            if "tail" in state:
                node.tail = w.text_of(state["tail"][i])
            if "prefix" in state:
                node.prefix = None if state["prefix"][i] == NOSTR else state["prefix"][i]
            for k, v in state.get("attrs", [[]] * n)[i]:
                node.add_attribute(k, w.text_of(v))
            for k, v in state.get("extras", [[]] * n)[i]:
                node.add_extras(k, w.text_of(v))
        # children bottom-up is unnecessary: add_child only touches namespaces, set afterwards
        for i in range(n):
            for c in state["kids"][i]:
                w.n(i + 1).add_child(w.n(c))
        if "ns" in state and ns_via_api:
            listed = {c for ks in state["kids"] for c in ks}

            def declare(i):
                for q, u in sorted(map(tuple, state["ns"][i - 1])):
                    if w.n(i).nsmap.get(World.prefix_alias.get(q, q)) != u:
                        w.n(i).add_namespace(World.prefix_alias.get(q, q), u)
                for c in state["kids"][i - 1]:
                    declare(c)
            for i in range(1, n + 1):
                if i not in listed:
                    declare(i)
            got = w.pi(("ns",))["ns"]
            want = [sorted(list(map(list, m))) for m in state["ns"]]
            if got != want:
                raise MachineryError(f"cannot establish namespace maps through the API: want {want} got {got}")
        elif "ns" in state:
            for i in range(n):
                w.n(i + 1).nsmap = {(None if q == "~default" else World.prefix_alias.get(q, q)): u for q, u in state["ns"][i]}      # "~default": the key None (default namespace)
        if "store" in state and not ids:
            keep = set(state["store"])
            for i in range(n):
                if (i + 1) not in keep:
                    Node.store.pop(w.n(i + 1).id, None)
        return w

    # ---------------------------------------------------------------- projection
    def pi(self, fields=FIELDS):
        st = {}
        N = self.nodes
        if "name" in fields:
            st["name"] = [x.name for x in N]
        if "plink" in fields:        # the stored parent pointer as it is (0 = None): only compared before/after read-only calls
            st["plink"] = [self.ident(x.parent) for x in N]
        if "kids" in fields:
            st["kids"] = [[self.ident(c) for c in x.children] for x in N]
        if "ns" in fields:
            inv = {v: k for k, v in World.prefix_alias.items()}
            st["ns"] = [sorted(["~default" if q is None else inv.get(q, q), u] for q, u in x.nsmap.items()) for x in N]    # None key = default namespace
        if "content" in fields:
            st["content"] = [self.atoms.atom(x.content) for x in N]
        if "tail" in fields:
            st["tail"] = [self.atoms.atom(x.tail) for x in N]
        if "prefix" in fields:
            st["prefix"] = [NOSTR if x.prefix is None else x.prefix for x in N]
        if "attrs" in fields:
            st["attrs"] = [[[k, self.atoms.atom(v)] for k, v in x.attributes.items()] for x in N]
        if "extras" in fields:
            st["extras"] = [[[k, self.atoms.atom(v)] for k, v in x.extras.items()] for x in N]
        if "store" in fields:
            st["store"] = [i + 1 for i, x in enumerate(N) if Node.get_node_instance(x.id) is x]      # retrievable BY ID through the public lookup
        return st

    def mc_atoms(self, texts):
        """Pre-intern text-<a> so that MC atom a maps to interned atom a."""
        for a in sorted(texts):
            got = self.atoms.atom(self.text_of(a))
            assert got == a, (got, a)

    def parent_links_ok(self):
        """ParentLinkOK on the implementation: every listed child's parent is its lister."""
        bad = []
        for i, x in enumerate(self.nodes):
            for c in x.children:
                if c.parent is not x:
                    bad.append((i + 1, self.ident(c), self.ident(c.parent)))
        return bad

    def alias_partition(self):
        """Partition of node ids by identity of their nsmap dict (hidden state)."""
        groups = {}
        for i, x in enumerate(self.nodes):
            groups.setdefault(id(x.nsmap), []).append(i + 1)
        return tuple(sorted(tuple(g) for g in groups.values()))

    # ---------------------------------------------------------------- operations
    def apply(self, name, args):
        """Execute one abstract operation on the real objects, under a watchdog (a call that does not return within
        WATCHDOG_S seconds is reported as raising OperationDidNotTerminate instead of hanging the check).
        Returns (ok, ret, exc) ; ok False <=> an exception escaped."""
        import signal

        def on_alarm(signum, frame):
            raise OperationDidNotTerminate(f"{name}{args} still running after {WATCHDOG_S}s of CPU time")
        # CPU time of this process, not wall-clock: a loaded machine must never look like a hang
        old = signal.signal(signal.SIGVTALRM, on_alarm)
        signal.setitimer(signal.ITIMER_VIRTUAL, WATCHDOG_S)
        try:
            ret = self._apply(name, args)
            return True, ret, None
        except Exception as e:     # noqa: BLE001 - the harness records whatever escapes
            return False, 0, e
        finally:
            signal.setitimer(signal.ITIMER_VIRTUAL, 0)
            signal.signal(signal.SIGVTALRM, old)

    def _apply(self, name, a):
        n = self.n
        if name == "create":
            return self.new(a[0])
        if name == "add_child":
            if a[2] == -1:
                n(a[0]).add_child(n(a[1]))
            else:                    # the model logs a negative Python index j as j - 1 (-1 itself means "no index")
                n(a[0]).add_child(n(a[1]), index=a[2] if a[2] >= 0 else a[2] + 1)
            return 0
        if name == "remove_child":
            n(a[0]).remove_child(n(a[1]))
            return 0
        if name == "remove_children":
            n(a[0]).remove_children()
            return 0
        if name == "replace_child":
            n(a[0]).replace_child(n(a[1]), n(a[2]), delete_old=bool(a[3]))
            return 0
        if name == "shift":
            d = Shift.RIGHT if a[2] == "R" else Shift.LEFT
            return n(a[0]).shift(n(a[1]), d, sib=bool(a[3]))
        if name == "add_namespace":
            n(a[0]).add_namespace(World.prefix_alias.get(a[1], a[1]), a[2])
            return 0
        if name == "remove_namespace":
            n(a[0]).remove_namespace(World.prefix_alias.get(a[1], a[1]))
            return 0
        if name == "copy":
            if getattr(self, "copy_via_json", False):
                # a distinct but id-identical twin: what saving and re-loading a subtree gives (C18)
                from metapype.model import metapype_io
                c = metapype_io.from_json(metapype_io.to_json(n(a[0])))
            else:
                c = n(a[0]).copy()
            return self.track_tree(c)
        if name == "delete":
            # the documented signature is (id, children=True): callers pass the flag by keyword or by position
            self._delete_calls = getattr(self, "_delete_calls", 0) + 1
            if (self._delete_calls + a[0]) % 2:
                Node.delete_node_instance(n(a[0]).id, bool(a[1]))
            else:
                Node.delete_node_instance(n(a[0]).id, children=bool(a[1]))
            return 0
        if name == "set_content":
            n(a[0]).content = self.text_of(a[1])
            return 0
        if name == "set_tail":
            n(a[0]).tail = self.text_of(a[1])
            return 0
        if name == "set_name":
            n(a[0]).name = a[1]
            return 0
        if name == "set_prefix":
            n(a[0]).prefix = None if a[1] == NOSTR else a[1]
            return 0
        if name == "add_attribute":
            n(a[0]).add_attribute(a[1], self.text_of(a[2]))
            return 0
        if name == "remove_attribute":
            n(a[0]).remove_attribute(a[1])
            return 0
        if name == "add_extras":
            n(a[0]).add_extras(a[1], self.text_of(a[2]))
            return 0
        raise KeyError(f"harness does not know operation {name}")

    # ---------------------------------------------------------------- queries
    def queries(self, names, paths):
        """All search queries with all small arguments, in the shape of Metapype!Queries."""
        N = self.nodes
        idl = lambda xs: [self.ident(x) for x in xs]  # noqa: E731
        q = {}
        q["find_child"] = [{x: self.ident(n.find_child(x)) for x in names} for n in N]
        q["find_all_children"] = [{x: idl(n.find_all_children(x)) for x in names} for n in N]
        q["find_descendant"] = [{x: self.ident(n.find_descendant(x)) for x in names} for n in N]

        def fad(n, x):
            out = []
            n.find_all_descendants(x, out)
            return idl(out)
        q["find_all_descendants"] = [{x: fad(n, x) for x in names} for n in N]
        q["single_by_path"] = [[[list(p), self.ident(n.find_single_node_by_path(list(p)))] for p in paths] for n in N]
        q["all_by_path"] = [[[list(p), idl(n.find_all_nodes_by_path(list(p)))] for p in paths] for n in N]
        q["child_index"] = [[(lambda r: -1 if r is None else r)(p.child_index(c)) for c in N] for p in N]
        return q

    def ancestry(self, i):
        return [self.ident(x) for x in self.n(i).get_ancestry()]


def jdump(x):
    return json.dumps(x, sort_keys=True, separators=(",", ":"))
