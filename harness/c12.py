"""C12 - copy is deep, equal and independent;  C18 - structural equality compares whole trees.

Both are decided on one exploration, MC_Copy: template tree -> copy of any subtree -> one
(quick) or two (thorough) edits of any kind on any node of either tree.  Every transition is
replayed after the genuine history reaching its source state (templates are built through the
public API so that parents and children alias namespace dicts as they do in practice), and
the FULL projection of BOTH trees is compared with TLC's successor after every step.
For C18 every reached state carries TLC's set of structurally equal ordered node pairs
(TreeEq), compared with Node.is_equal on every ordered pair of distinct nodes.
"""
import os

from harness import common
from harness.common import judge_traces, MachineryError, run_tlc, SPEC, workdir, parallel
from harness.world import World, canon, jdump, Node, FIELDS as ALLF
from harness.c09 import load_log_all, bfs_access, opkey

G = {}
TEXTS = {1, 2}


def mkworld(init_state):
    w = World.build(init_state, ns_via_api=True)
    return w


def build_with_atoms(init_state, ids=None):
    # atoms must be interned before any text is projected so that MC atom a == interned atom a
    from harness.world import Atoms
    at = Atoms()
    w0 = World(atoms=at)
    w0.mc_atoms(TEXTS)
    w = World.build(init_state, ns_via_api=True, atoms=at, ids=ids)
    return w


NOSTORE = tuple(f for f in ALLF if f != "store")


def dup_id_variant(t, ik, path):
    """The same history on a template whose nodes were constructed with explicit, REPEATED ids (Node(name, id=...)
    accepts any id): the copy must still equal the original in every field and order, and its ids must still be fresh,
    pairwise distinct and registered.  The registry of the originals is degenerate here and is not compared."""
    out = []
    w = build_with_atoms(G["states"][ik], ids=lambda i: f"dup-{i % 2}")
    ops = []
    for (op, tk) in path:
        ok, ret, exc = w.apply(op["name"], op["args"])
        ops.append(op)
        if not ok or canon(w.pi(ALLF), NOSTORE) != canon(G["states"][tk] if tk in G["states"] else {}, NOSTORE):
            return out          # an access path that needs the registry (delete by id) does not carry over
    op = t["op"]
    nb = len(w.nodes)
    old_ids = {x.id for x in w.nodes}
    ok, ret, exc = w.apply(op["name"], op["args"])
    replay = {"kind": "history-duplicate-ids", "template": G["states"][ik], "ops": ops + [op], "ids": "dup-(i mod 2)"}
    if not ok:
        return [(opkey(op, "raised:duplicate-ids", exc), repr(exc), replay)]
    after = w.pi(ALLF)
    if canon(after, NOSTORE) != canon(t["to"], NOSTORE):
        d = diff_nodes({k: v for k, v in t["to"].items() if k != "store"}, {k: v for k, v in after.items() if k != "store"})
        out.append(("copy:not-equal:duplicate-ids:" + ",".join(sorted(d)), f"originals carry repeated ids; fields {d}: expected {jdump(t['to'])} got {jdump(after)}", replay))
    new = w.nodes[nb:]
    nids = [x.id for x in new]
    if len(set(nids)) != len(nids) or set(nids) & old_ids:
        out.append(("copy:id-not-fresh:duplicate-ids", str(nids), replay))
    if any(Node.get_node_instance(x.id) is not x for x in new):
        out.append(("copy:new-node-not-registered:duplicate-ids", str(nids), replay))
    if w.parent_links_ok():
        out.append(("copy:parent-link-outside-copy:duplicate-ids", str(w.parent_links_ok()), replay))
    return out


def tree_of(state, n):
    """root of the tree containing n in an abstract state"""
    par = {}
    for p, ks in enumerate(state["kids"]):
        for c in ks:
            par[c] = p + 1
    while n in par:
        n = par[n]
    return n


def diff_nodes(a, b):
    """ids whose projection differs between two states (by field)"""
    out = {}
    n = max(len(a["kids"]), len(b["kids"]))
    ca, cb = dict(canon(a)), dict(canon(b))
    for f in ca:
        if f == "store":
            if ca[f] != cb[f]:
                out.setdefault("store", []).append(sorted(set(ca[f]) ^ set(cb[f])))
            continue
        for i in range(n):
            x = ca[f][i] if i < len(ca[f]) else None
            y = cb[f][i] if i < len(cb[f]) else None
            if x != y:
                out.setdefault(f, []).append(i + 1)
    return out


def replay_to(key):
    ik, path = G["access"][key]
    w = build_with_atoms(G["states"][ik])
    ops = []
    for (op, tk) in path:
        ok, ret, exc = w.apply(op["name"], op["args"])
        ops.append(op)
        if not ok or canon(w.pi(ALLF)) != tk:
            return None, ops, ik       # divergence on the access path: reported at its own transition
    return w, ops, ik


def w_c12(idx):
    out, n = [], 0
    for i in idx:
        t = G["T"][i]
        fk = canon(t["from"])
        w, ops, ik = replay_to(fk)
        if w is None:
            continue
        op = t["op"]
        ok, ret, exc = w.apply(op["name"], op["args"])
        after = w.pi(ALLF)
        replay = {"kind": "history", "template": G["states"][ik], "ops": ops + [op], "expected_to": t["to"]}
        n += 1
        if not ok:
            out.append((opkey(op, "raised", exc), repr(exc), replay))
            continue
        if op["name"] == "copy":
            if ret != op["ret"]:
                out.append(("copy:ret", f"expected new root {op['ret']} got {ret}", replay))
            new = list(range(len(t["from"]["kids"]) + 1, len(t["to"]["kids"]) + 1))
            ids = [w.n(j).id for j in range(1, len(w.nodes) + 1)]
            if len(set(ids)) != len(ids):
                out.append(("copy:id-not-fresh", str(ids), replay))
            for j in new:
                if j <= len(w.nodes) and Node.get_node_instance(w.n(j).id) is not w.n(j):
                    out.append(("copy:new-node-not-registered", f"node {j}", replay))
            pl = w.parent_links_ok()
            if pl:
                out.append(("copy:parent-link-outside-copy", str(pl), replay))
            out += dup_id_variant(t, ik, G["access"][fk][1])
        if canon(after) != canon(t["to"]):
            d = diff_nodes(t["to"], after)
            if op["name"] == "copy":
                out.append(("copy:not-equal:" + ",".join(sorted(d)), f"fields {d}: expected {jdump(t['to'])} got {jdump(after)}", replay))
            else:
                target = op["args"][0] if op["name"] not in ("add_child",) else op["args"][1]
                troot = tree_of(t["from"], op["args"][0])
                other = sorted({m for f, ms in d.items() if f != "store" for m in ms if tree_of(t["to"], m) != tree_of(t["to"], op["args"][0])})
                if other:
                    out.append((f"independence:{op['name']}:visible-in-other-tree:" + ",".join(sorted(d)),
                                f"edit {op['name']}{op['args']} changed node(s) {other} of the other tree; fields {d}", replay))
                else:
                    out.append((f"edit:{op['name']}:" + ",".join(sorted(d)), f"fields {d}: expected {jdump(t['to'])} got {jdump(after)}", replay))
    return n, out


def replay_ops_only(key, via_json=False):
    """Replay the access path without requiring that the real state follows the model: C18 asks what is_equal
    answers after these edits, whatever they did.  via_json: the 'copy' step is a JSON save + load instead, which gives
    a distinct tree whose nodes carry the SAME ids as the original."""
    ik, path = G["access"][key]
    w = build_with_atoms(G["states"][ik])
    w.copy_via_json = via_json
    ops = []
    for (op, tk) in path:
        ok, ret, exc = w.apply(op["name"], op["args"])
        ops.append(op)
        if not ok:
            return None, ops, ik
    return w, ops, ik


def w_c18(idx):
    out, n, npairs = [], 0, 0

    def compare(e, via_json):
        nonlocal n, npairs
        key = canon(e["st"])
        w, ops, ik = replay_ops_only(key, via_json)
        if w is None or len(w.nodes) != len(e["st"]["kids"]):
            return
        if via_json and canon(w.pi(ALLF), ("name", "kids", "ns", "content", "tail", "prefix", "attrs", "extras")) != \
                canon(e["st"], ("name", "kids", "ns", "content", "tail", "prefix", "attrs", "extras")):
            return       # the JSON twin is only used where it reproduces the model state (apart from the registry)
        before = w.pi(ALLF)
        eq = {tuple(p) for p in e["eq"]}
        N = len(w.nodes)
        tag = ":json-twin" if via_json else ""
        for a in range(1, N + 1):
            for b in range(1, N + 1):
                if a == b:
                    continue
                npairs += 1
                try:
                    got = Node.is_equal(w.n(a), w.n(b))
                except Exception as exc:  # noqa: BLE001
                    out.append((f"is_equal:raised:{type(exc).__name__}{tag}", repr(exc), {"kind": "pair", "template": G["states"][ik], "ops": ops, "a": a, "b": b, "via_json": via_json}))
                    continue
                want = (a, b) in eq
                if bool(got) != want:
                    where = first_difference(e["st"], a, b) if not want else "equal"       # for a stable key
                    out.append((f"is_equal:{'false-positive' if got else 'false-negative'}:{where}{tag}",
                                f"is_equal({a},{b}) = {got}, TreeEq = {want}; state {jdump(e['st'])}" + (" (second tree made by JSON save+load: same ids)" if via_json else ""),
                                {"kind": "pair", "template": G["states"][ik], "ops": ops, "a": a, "b": b, "expected": want, "via_json": via_json}))
        if canon(w.pi(ALLF)) != canon(before):
            out.append(("is_equal:mutates", "", {"kind": "pair", "template": G["states"][ik], "ops": ops}))
        n += 1

    for i in idx:
        e = G["E"][i]
        if canon(e["st"]) not in G["access"]:
            continue
        compare(e, False)
        if e["lvl"] > 1:
            compare(e, True)
    return n, out, npairs


def w_shape_copies(idx):
    """MC_Shapes (Mode single): copy of every subtree of every small ordered tree, against Steps!CopyF."""
    out, n = [], 0
    for i in idx:
        t = G["SC"][i]
        w = World.build(t["from"])
        op = t["op"]
        ok, ret, exc = w.apply("copy", op["args"])
        replay = {"kind": "shape-copy", "state": t["from"], "op": op}
        n += 1
        if not ok:
            out.append((opkey(op, "raised:shapes", exc), repr(exc), replay))
            continue
        after = w.pi(ALLF)
        if ret != op["ret"]:
            out.append(("copy:ret:shapes", f"expected {op['ret']} got {ret}", replay))
        if canon(after) != canon(t["to"]):
            d = diff_nodes(t["to"], after)
            out.append(("copy:not-equal:shapes:" + ",".join(sorted(d)), f"fields {d}: expected {jdump(t['to'])} got {jdump(after)}", replay))
        ids = [x.id for x in w.nodes]
        if len(set(ids)) != len(ids):
            out.append(("copy:id-not-fresh:shapes", str(ids), replay))
        if w.parent_links_ok():
            out.append(("copy:parent-link-outside-copy:shapes", str(w.parent_links_ok()), replay))
        # fresh ids also when the host program puts its own random number generator back into an earlier state between two
        # copies (re-seeding per unit of work, forked workers): the copy of a copy, both taken under the same generator state
        if i % 4 == 1:
            import random as _random
            state = _random.getstate()
            w5 = World.build(t["from"])
            _random.seed(20261004)
            ok1, r1, _e = w5.apply("copy", op["args"])
            _random.seed(20261004)
            ok2, r2, _e = (w5.apply("copy", [r1]) if ok1 else (False, 0, None))
            _random.setstate(state)
            if ok1 and ok2:
                ids5 = [x.id for x in w5.nodes]
                if len(set(ids5)) != len(ids5):
                    out.append(("copy:id-not-fresh:host-random-state-repeats", f"{len(ids5) - len(set(ids5))} ids handed out twice", replay))
                elif any(Node.get_node_instance(x.id) is not x for x in w5.nodes):
                    out.append(("copy:registry-entry-taken-over:host-random-state-repeats", "", replay))
            n += 1
        # the registry is whatever Node.store names NOW: an application that starts a new document by rebinding it
        # (Node.store = {}) finds every copy registered there, like every node it constructs
        if i % 4 == 3:
            old_store = Node.store
            try:
                Node.store = {}
                w6 = World.build(t["from"])
                nb6 = len(w6.nodes)
                ok6, r6, _e = w6.apply("copy", op["args"])
                if ok6:
                    lost = [w6.ident(x) for x in w6.nodes[nb6:] if Node.store.get(x.id) is not x]
                    fresh_lost = Node.store.get(Node("probe").id) is None
                    if lost and not fresh_lost:
                        out.append(("copy:not-registered:registry-rebound", f"copies {lost} are not in the registry that Node.store names", replay))
            finally:
                Node.store = old_store
            n += 1
        # what lies OUTSIDE the copied subtree is not copied: ancestors (and siblings) carry attributes, qualified attributes
        # (xml:lang ...), namespaces, text and tails that the copied node lacks - the copy has exactly the fields of its source
        if len(t["from"]["kids"]) > 2:
            w7 = World.build({"name": t["from"]["name"], "kids": t["from"]["kids"]})
            srcs7 = set()

            def mark(k):
                srcs7.add(k)
                for c_ in t["from"]["kids"][k - 1]:
                    mark(c_)
            mark(op["args"][0])
            for j, x in enumerate(w7.nodes):
                if (j + 1) in srcs7:
                    # ... and INSIDE it values that are not strings (a JSON model carries numbers and booleans; add_attribute takes
                    # anything): a copy holds the same values, not their renderings
                    x.add_attribute("scale", 2 + j)
                    x.add_attribute("flag", j % 2 == 0)
                    x.add_attribute("ratio", 0.5)
                    x.add_extras("x:count", j)
                    x.add_extras("x:none", None)
                if (j + 1) not in srcs7:
                    x.add_extras("xml:lang", "es")
                    x.add_extras("x:note", "outside")
                    x.add_attribute("lang", "en")
                    x.add_attribute("id", "outside-%d" % j)
                    x.content = "outside text"
                    x.tail = "outside tail"
                    x.prefix = "o"
            nb7 = len(w7.nodes)
            ok7, r7, _e = w7.apply("copy", op["args"])
            if ok7:
                def pre7(k):
                    return [k] + [y for c_ in t["from"]["kids"][k - 1] for y in pre7(c_)]
                for sk, cp in zip(pre7(op["args"][0]), w7.nodes[nb7:]):
                    so = w7.n(sk)
                    typed = lambda d: {k: (type(v).__name__, v) for k, v in d.items()} if isinstance(d, dict) else d  # noqa: E731  (True == 1: compare types too)
                    bad = [f for f in ("attributes", "extras", "content", "tail", "prefix", "name") if typed(getattr(so, f)) != typed(getattr(cp, f))]
                    if bad:
                        out.append(("copy:not-equal:copy-differs-from-its-source-node:" + ",".join(bad),
                                    f"source node {sk}: " + "; ".join(f"{f} {getattr(so, f)!r} -> {getattr(cp, f)!r}" for f in bad), replay))
                        break
            n += 1
        # the same source, its child lists assigned through the `children` property (no parent pointer is set that way;
        # a tree is its child lists): below the copy's root every parent link must point inside the copy all the same
        if i % 2 == 0 and len(t["from"]["kids"]) > 1:
            w2 = World.build({"name": t["from"]["name"], "kids": [[] for _ in t["from"]["kids"]]})
            for j, ks in enumerate(t["from"]["kids"]):
                if ks:
                    w2.n(j + 1).children = [w2.n(c) for c in ks]
            nb = len(w2.nodes)
            ok, ret, exc = w2.apply("copy", op["args"])
            if not ok:
                out.append((opkey(op, "raised:source-built-with-children-setter", exc), repr(exc), replay))
            else:
                bad = [(w2.ident(x), w2.ident(c), w2.ident(c.parent)) for x in w2.nodes[nb:] for c in x.children if c.parent is not x]
                if bad:
                    out.append(("copy:parent-link-outside-copy:source-built-with-children-setter", f"(lister, child, child's parent) {bad}", replay))
                got = w2.pi(("name", "kids"))
                if canon(got, ("name", "kids")) != canon(t["to"], ("name", "kids")):
                    out.append(("copy:not-equal:source-built-with-children-setter", f"expected {jdump(t['to']['kids'])} got {jdump(got['kids'])}", replay))
            n += 1
        # the same source carrying a default namespace (key None, as an XML import leaves it) next to a prefixed one
        if i % 3 == 1:
            w3 = World.build(t["from"])
            w3.n(1).add_namespace(None, "urn:default")
            w3.n(1).add_namespace("x", "urn:x")
            for j, x in enumerate(w3.nodes):           # ... and layout-like texts: whitespace-only tails and contents are texts like any other
                x.tail = [" ", "\n    ", "\t", "\u00a0", "", None, "t"][(i + j) % 7]
                x.content = ["\n", " ", None, "", "c"][(i + 2 * j) % 5]
            nb = len(w3.nodes)
            ok, ret, exc = w3.apply("copy", op["args"])
            if not ok:
                out.append((opkey(op, "raised:default-namespace", exc), repr(exc), replay))
            else:
                got = w3.pi(("name", "kids", "ns"))
                texts = [(x.tail, x.content) for x in w3.nodes]
                kids = t["from"]["kids"]

                def pre(k):
                    return [k] + [y for c in kids[k - 1] for y in pre(c)]
                src = pre(op["args"][0])
                if canon(got, ("name", "kids")) != canon(t["to"], ("name", "kids")) or \
                        [got["ns"][k - 1] for k in src] != [got["ns"][j] for j in range(nb, len(w3.nodes))]:
                    out.append(("copy:not-equal:default-namespace", f"source ns {[got['ns'][k - 1] for k in src]} copy ns {got['ns'][nb:]}", replay))
                if [texts[k - 1] for k in src] != texts[nb:]:
                    out.append(("copy:not-equal:whitespace-texts", f"source (tail, content) {[texts[k - 1] for k in src]} copy {texts[nb:]}", replay))
            n += 1
        # the same source with namespace declarations of their own on INNER nodes, made after the tree was assembled (top-down
        # or bottom-up): add_namespace hands one map OBJECT to a whole subtree - which nodes share a map object is layout,
        # the copy of every node carries the bindings of ITS source node
        if len(t["from"]["kids"]) > 2:
            w4 = World.build({"name": t["from"]["name"], "kids": t["from"]["kids"]})       # (attached with add_child: parent and child share their empty map)
            order = list(range(len(w4.nodes)))
            if i % 2:
                order.reverse()
            for j in order:
                x = w4.nodes[j]
                if x.children or j % 2 == 0:
                    x.add_namespace("p%d" % (j % 3), "urn:%d" % j)
            nb = len(w4.nodes)
            ok, ret, exc = w4.apply("copy", op["args"])
            if not ok:
                out.append((opkey(op, "raised:inner-declarations", exc), repr(exc), replay))
            else:
                got = w4.pi(("name", "kids", "ns"))
                kids = t["from"]["kids"]

                def pre4(k):
                    return [k] + [y for c in kids[k - 1] for y in pre4(c)]
                src = pre4(op["args"][0])
                if [got["ns"][k - 1] for k in src] != [got["ns"][j] for j in range(nb, len(w4.nodes))]:
                    out.append(("copy:not-equal:inner-declarations:ns", f"source ns {[got['ns'][k - 1] for k in src]} copy ns {got['ns'][nb:]}", replay))
            n += 1
    return n, out


_P, _S = "The quick brown fox jumps over ", " the lazy dog and keeps on running"


def stretched(st, text_of):
    """The same state with every string value wrapped in one long common prefix and one long common suffix (an injective
    renaming: TreeEq is unchanged).  Values now differ only in the MIDDLE of long strings."""
    from harness.world import NOSTR
    wrap = lambda v: _P + v + _S  # noqa: E731
    st2 = dict(st)
    st2["name"] = [wrap(x) for x in st["name"]]
    if "prefix" in st:
        st2["prefix"] = [x if x == NOSTR else wrap(x) for x in st["prefix"]]
    if "ns" in st:
        st2["ns"] = [[[q if q == "~default" else wrap(q), wrap(u)] for q, u in m] for m in st["ns"]]
    for f in ("attrs", "extras"):
        if f in st:
            st2[f] = [[[wrap(k), v] for k, v in m] for m in st[f]]
    base = text_of or (lambda a: None if a == 0 else ("" if a == 2 else f"text-{a}"))
    return st2, (lambda a: None if base(a) is None else wrap(base(a)))


def w_shapes(idx):
    """MC_Shapes: both trees of every logged pair are built as they are (no history) and every ordered pair of
    distinct nodes is compared."""
    out, n, npairs = [], 0, 0
    for i in idx:
        e = G["SH"][i]
        w = World.build(e["st"], text_of=G["SH_text_of"]) if G.get("SH_text_of") else World.build(e["st"])
        before = w.pi(ALLF)
        eq = {tuple(p) for p in e["eq"]}
        N = len(w.nodes)
        for a in range(1, N + 1):
            for b in range(1, N + 1):
                if a == b:
                    continue
                npairs += 1
                try:
                    got = Node.is_equal(w.n(a), w.n(b))
                except Exception as exc:  # noqa: BLE001
                    out.append((f"is_equal:raised:{type(exc).__name__}:shapes", repr(exc), {"kind": "shapes", "state": e["st"], "a": a, "b": b}))
                    continue
                want = (a, b) in eq
                if bool(got) != want:
                    where = first_difference(e["st"], a, b) if not want else "equal"
                    out.append((f"is_equal:{'false-positive' if got else 'false-negative'}:{where}:shapes",
                                f"is_equal({a},{b}) = {got}, TreeEq = {want}; state {jdump(e['st'])}", {"kind": "shapes", "state": e["st"], "a": a, "b": b, "expected": want}))
        if canon(w.pi(ALLF)) != canon(before):
            out.append(("is_equal:mutates:shapes", "", {"kind": "shapes", "state": e["st"]}))
        n += 1
        # the same pair of trees with every string value stretched: long values that differ only in the middle
        st2, tof = stretched(e["st"], G.get("SH_text_of"))
        w2 = World.build(st2, text_of=tof)
        for a in range(1, N + 1):
            for b in range(1, N + 1):
                if a == b:
                    continue
                npairs += 1
                try:
                    got = Node.is_equal(w2.n(a), w2.n(b))
                except Exception as exc:  # noqa: BLE001
                    out.append((f"is_equal:raised:{type(exc).__name__}:shapes:long-values", repr(exc), {"kind": "shapes", "state": e["st"], "a": a, "b": b, "long_values": True}))
                    continue
                want = (a, b) in eq
                if bool(got) != want:
                    where = first_difference(e["st"], a, b) if not want else "equal"
                    out.append((f"is_equal:{'false-positive' if got else 'false-negative'}:{where}:shapes:long-values",
                                f"is_equal({a},{b}) = {got}, TreeEq = {want}; every string value wrapped in a long common prefix and suffix; state {jdump(e['st'])}",
                                {"kind": "shapes", "state": e["st"], "a": a, "b": b, "expected": want, "long_values": True}))
        # mapping values of DIFFERENT types that render alike (2 / "2", True / "True", 0.5 / "0.5"): values are compared as they
        # are - attribute and extras values are stored as given (only content and tail are coerced to str, so they stay None here)
        for typed in (G.get("SH_typed") or []):
            if any(x != 0 for x in e["st"]["content"]) or any(x != 0 for x in e["st"]["tail"]):
                break
            w3 = World.build(e["st"], text_of=lambda a, typed=typed: typed.get(a, None if a == 0 else f"text-{a}"))
            for a in range(1, N + 1):
                for b in range(1, N + 1):
                    if a == b:
                        continue
                    npairs += 1
                    try:
                        got = Node.is_equal(w3.n(a), w3.n(b))
                    except Exception as exc:  # noqa: BLE001
                        out.append((f"is_equal:raised:{type(exc).__name__}:shapes:typed-values", repr(exc), {"kind": "shapes", "state": e["st"], "a": a, "b": b, "typed_values": repr(typed)}))
                        continue
                    want = (a, b) in eq
                    if bool(got) != want:
                        where = first_difference(e["st"], a, b) if not want else "equal"
                        out.append((f"is_equal:{'false-positive' if got else 'false-negative'}:{where}:shapes:typed-values",
                                    f"is_equal({a},{b}) = {got}, TreeEq = {want}; mapping values realised as {typed!r}; state {jdump(e['st'])}",
                                    {"kind": "shapes", "state": e["st"], "a": a, "b": b, "expected": want, "typed_values": repr(typed)}))
    return n, out, npairs


def first_difference(st, a, b, depth=0, pos="root"):
    for f in ("name", "content", "tail", "prefix"):
        if st[f][a - 1] != st[f][b - 1]:
            return f"{f}@depth{depth}:{pos}"
    for f in ("ns", "attrs", "extras"):
        if sorted(map(tuple, st[f][a - 1])) != sorted(map(tuple, st[f][b - 1])):
            return f"{f}@depth{depth}:{pos}"
    ka, kb = st["kids"][a - 1], st["kids"][b - 1]
    if len(ka) != len(kb):
        return f"child-count@depth{depth}:{pos}"
    for i, (x, y) in enumerate(zip(ka, kb)):
        r = first_difference(st, x, y, depth + 1, "first-child" if i == 0 else "later-child")
        if r != "equal":
            return r
    return "equal"


def explore(rep, tier, pid):
    wd = workdir(pid, "mc", wipe=True)
    cfg = "MC_Copy.cfg" if tier == "quick" else "MC_Copy4.cfg"
    out = os.path.join(wd, "mc.out")
    r = run_tlc("Metapype", cfg=os.path.join(SPEC, cfg), stdout_path=out, timeout=2400)
    if not r.ok or r.invariant_violated or r.action_prop_violated:
        raise MachineryError(f"{cfg}: the specification violates its own properties:\n" + r.out[-2000:])
    rep.add_tlc(r, cfg)
    log = load_log_all(out)
    os.remove(out)
    T, E = log["T"], log["E"]
    states = {}
    for t in T:
        states.setdefault(canon(t["from"]), t["from"])
        states.setdefault(canon(t["to"]), t["to"])
    # initial states = the templates (logged at level 1)
    inits = sorted({canon(e["st"]) for e in E if e["lvl"] == 1 and canon(e["st"]) in states})
    E = [e for e in E if canon(e["st"]) in states]     # TLC also evaluates invariants on successors its action constraints reject
    graph, access = bfs_access(T, inits, ALLF)
    if len(access) != r.distinct:
        raise MachineryError(f"access paths cover {len(access)} states, TLC found {r.distinct}")
    G.update(T=T, E=E, states=states, access=access)
    opcount = {}
    for t in T:
        opcount[t["op"]["name"]] = opcount.get(t["op"]["name"], 0) + 1
    rep.notes["model_transitions_by_action"] = opcount
    need = {"copy", "add_child", "remove_child", "remove_children", "shift", "add_namespace", "remove_namespace", "set_content",
            "set_tail", "set_name", "set_prefix", "add_attribute", "remove_attribute", "add_extras"}
    if need - set(opcount):
        raise MachineryError(f"vacuous model: actions never taken: {need - set(opcount)}")
    return T, E


def run(rep, tier, seed):
    pid = "C12"
    T, E = explore(rep, tier, pid)
    res = parallel(w_c12, range(len(T)))
    nT = 0
    for n, outl in res:
        nT += n
        for key, det, replay in outl:
            rep.violation(f"{pid}:{key}", det[:500], replay)
    rep.notes["transitions_replayed_after_genuine_history"] = nT
    # the copy of every subtree of every small tree shape
    wd = workdir(pid, "shapes", wipe=True)
    nS = 0
    for cfg in (["MC_ShapesCopy.cfg"] if tier == "quick" else ["MC_ShapesCopy.cfg", "MC_ShapesCopy7.cfg"]):
        outp = os.path.join(wd, "shapes.out")
        r = run_tlc("MC_Shapes", cfg=os.path.join(SPEC, cfg), stdout_path=outp, timeout=2400)
        if not r.ok or r.invariant_violated:
            raise MachineryError(f"{cfg}: CopyF is not an equal disjoint copy on some shape:\n" + r.out[-1500:])
        rep.add_tlc(r, cfg + " (copy of every subtree of every ordered labelled tree)")
        G["SC"] = load_log_all(outp)["T"]
        os.remove(outp)
        for n, outl in parallel(w_shape_copies, range(len(G["SC"]))):
            nS += n
            for key, det, replay in outl:
                rep.violation(f"{pid}:{key}", det[:500], replay)
    rep.notes["shape_copies_replayed"] = nS
    nT += nS
    t = T[len(T) // 2]
    rep.sample({"template->copy->edit": [o for o, _ in G["access"][canon(t["from"])][1]] + [t["op"]]})
    rep.cov["evaluations"] = nT
    # large instances: chains deeper and fans wider than any bounded model, copied at several nodes; TLC judges (Steps!CopyF)
    traces = []
    for shape, size in (("chain", 70), ("chain", 150), ("chain", 300), ("fan", 400), ("comb", 120), ("bush", 1 + 13 + 13 * 12), ("bush", 1 + 25 + 25 * 3)):
        kids = [[] for _ in range(size)]
        if shape == "bush":          # a root with many children, each with several children of its own (positions with two digits at two levels)
            width = 13 if size == 1 + 13 + 13 * 12 else 25
            per = (size - 1 - width) // width
            for c in range(width):
                kids[0].append(2 + c)
                kids[1 + c] = [2 + width + c * per + j for j in range(per)]
        for i in range(2, size + 1):
            if shape == "bush":
                break
            par = i - 1 if shape == "chain" else (1 if shape == "fan" else (i - 2 if i % 2 == 1 and i > 2 else i - 1))
            kids[par - 1].append(i)
        st = {"name": ["a" if i % 3 else "b" for i in range(size)], "kids": kids}
        w = World.build(st)
        for i, x in enumerate(w.nodes):
            x.content = None if i % 4 == 0 else f"text-{i % 5}"
            if i % 7 == 0:
                x.add_attribute("k", f"v{i % 3}")
        tr = {"init": w.pi(ALLF), "events": [], "desc": {"shape": shape, "nodes": size}}
        for src in (1, 2, size // 2):
            ok, ret, exc = w.apply("copy", [src])
            tr["events"].append({"op": "copy", "args": [src], "ok": ok, "ret": ret if isinstance(ret, int) else 0, "post": w.pi(ALLF)})
        traces.append(tr)
    rejects, rr = judge_traces([{"init": t["init"], "events": t["events"]} for t in traces], pid, label="large-copies", timeout=3000)
    rep.cov["traces_validated_against_impl"] += len(traces)
    for rj in rejects:
        tr = traces[rj["trace"] - 1]
        rep.violation(f"{pid}:copy:large:{','.join(sorted(rj['clauses']))}", f"copy of node {tr['events'][rj['event'] - 1]['args']} in a {tr['desc']} tree: clauses {rj['clauses']}",
                      {"kind": "large-copy", "desc": tr["desc"], "event": rj["event"], "clauses": rj["clauses"]})
    rep.notes["large_copies"] = [t["desc"] for t in traces]
    from harness import suite
    suite.run_for(rep, "C12")
    rep.cov["distinct_nontrivial"] = nT
    rep.cov["rule"] = "one case per labelled transition of MC_Copy (template x copied subtree x edit on any node of either tree)"
    rep.cov["exhaustive"] = True
    rep.assumptions += ["text values are interned: equal atom <=> identical Python string",
                        "templates: single node; root+2 children with content/tail/attributes; 4-node tree with namespaces, prefixes, extras"]
