"""C09 - edit histories keep an ordered tree; queries observe exactly that tree.

spec -> code : TLC explores MC_Edit (every forest over N nodes, every edit incl. failing
               edits) and logs the whole labelled transition relation plus, per state, the
               value of every query.  Every transition, every state's queries, all paths to
               a depth bound and seeded random walks are replayed on real Node objects.
code -> spec : long seeded random histories over 12-20 nodes are recorded from the real API
               and judged event by event by TraceForest.tla (queries included).
"""
import json
import os
import random

from harness import common
from harness.common import MachineryError, run_tlc, SPEC, workdir, parallel, judge_traces
from harness.world import World, canon, jdump

PID = "C09"
FIELDS = ("name", "kids")
NAMES = ["a", "ab"]          # one name is a substring of the other: queries match names by equality
PATHS = [[]] + [[x] for x in NAMES] + [[x, y] for x in NAMES for y in NAMES]

G = {}   # shared with forked workers


def load_log(path):
    T, Q = [], []
    with open(path) as f:
        for line in f:
            if not line.startswith('"{'):
                continue
            j = json.loads(common._unescape_tla_string(line.rstrip("\n")[1:-1]))
            if j["k"] == "T":
                T.append(j)
            elif j["k"] == "Q":
                Q.append(j)
    return T, Q


def load_log_all(path):
    out = {}
    with open(path) as f:
        for line in f:
            if line.startswith('"{'):
                j = json.loads(common._unescape_tla_string(line.rstrip("\n")[1:-1]))
                out.setdefault(j["k"], []).append(j)
    return out


def bfs_access(T, inits, fields):
    """Shortest access path (list of (op, to_key)) from an initial state to every state of TLC's graph."""
    graph = {}
    for t in T:
        graph.setdefault(canon(t["from"], fields), []).append((t["op"], canon(t["to"], fields)))
    access = {k: (k, []) for k in inits}
    frontier = list(inits)
    while frontier:
        nxt = []
        for k in frontier:
            for (op, tk) in graph.get(k, []):
                if tk not in access:
                    access[tk] = (access[k][0], access[k][1] + [(op, tk)])
                    nxt.append(tk)
        frontier = nxt
    return graph, access


def opkey(op, clause, exc=None):
    a = op["args"]
    flags = ""
    if op["name"] == "shift":
        flags = f":{a[2]}:{'sib' if a[3] else 'positional'}"
    if op["name"] == "add_child":
        flags = ":append" if a[2] == -1 else ":insert"
    if op["name"] == "replace_child":
        flags = ":delete" if a[3] else ":keep"
    e = f":{type(exc).__name__}" if exc is not None else ""
    return f"{op['name']}{flags}:{clause}{e}"


def check_step(w, op, to, fields=FIELDS):
    """Apply op on world w; compare with TLC's successor. Returns list of (clause, detail, exc)."""
    bad = []
    before = w.pi(fields)
    ok, ret, exc = w.apply(op["name"], op["args"])
    after = w.pi(fields)
    if ok != op["ok"]:
        bad.append(("raised-unexpectedly" if op["ok"] else "did-not-raise", repr(exc), exc))
        if not op["ok"] or True:
            if not op["ok"] and canon(after, ("kids",)) != canon(before, ("kids",)):
                bad.append(("failed-edit-changed-tree", "", None))
        return bad
    if not ok:
        if canon(after, ("kids",)) != canon(before, ("kids",)):
            bad.append(("failed-edit-changed-tree", jdump(after), None))
        return bad
    if canon(after, fields) != canon(to, fields):
        bad.append(("state", f"expected {jdump(to)} got {jdump(after)}", None))
    if op["name"] == "shift" and ret != op["ret"]:
        bad.append(("ret", f"expected index {op['ret']} got {ret}", None))
    pl = w.parent_links_ok()
    if pl:
        bad.append(("parent-link", str(pl), None))
    return bad


def w_transitions(idx):
    out, n = [], 0
    for i in idx:
        t = G["T"][i]
        w = World.build(t["from"])
        for clause, detail, exc in check_step(w, t["op"], t["to"]):
            out.append((opkey(t["op"], clause, exc), detail, {"kind": "transition", "from": t["from"], "op": t["op"], "expected_to": t["to"]}))
        n += 1
        # the same edit on nodes that carry namespace maps of their own - every other node declares a default namespace
        # (key None, as an XML import leaves it) and a prefix: child lists and parent links are none of the maps' business
        if i % 3 == 0:
            w = World.build(t["from"])
            for j, x in enumerate(w.nodes):
                if j % 2 == 0:
                    x.nsmap = {None: "urn:default", "x": "urn:x"}
                elif j % 3 == 0:
                    x.nsmap = {"y": "urn:y"}
                if i % 2 == 0:
                    x.prefix = "x"          # qualified elements (same prefix everywhere): "same-named siblings" go by element NAME
            for clause, detail, exc in check_step(w, t["op"], t["to"]):
                out.append((opkey(t["op"], clause + ":nodes-carry-namespace-maps", exc), detail,
                            {"kind": "transition", "from": t["from"], "op": t["op"], "expected_to": t["to"], "variant": "namespace maps incl. a default namespace"}))
            n += 1
    return n, out


def cmp_queries(w, q, judge_ancestry=True):
    bad = []
    real = w.queries(NAMES, PATHS)
    for name, val in real.items():
        exp = q[name]
        if name in ("single_by_path", "all_by_path"):
            exp = [sorted(x, key=lambda pr: (len(pr[0]), pr[0])) for x in exp]
            val = [sorted(x, key=lambda pr: (len(pr[0]), pr[0])) for x in val]
        if exp != val:
            bad.append((name, f"expected {jdump(exp)} got {jdump(val)}"))
    if judge_ancestry:
        anc = [w.ancestry(i + 1) for i in range(len(w.nodes))]
        if anc != q["ancestry"]:
            bad.append(("ancestry", f"expected {jdump(q['ancestry'])} got {jdump(anc)}"))
    return bad


def w_queries(idx):
    out, n = [], 0
    for i in idx:
        s = G["Q"][i]
        w = World.build(s["st"])
        before = w.pi(FIELDS)
        for name, detail in cmp_queries(w, s["q"]):
            out.append((f"query:{name}", detail, {"kind": "query", "state": s["st"], "query": name}))
        if canon(w.pi(FIELDS), FIELDS) != canon(before, FIELDS):
            out.append(("query-mutates", "", {"kind": "query", "state": s["st"]}))
        n += 1
        # the same forest built from nodes that were all constructed with ONE explicit id (ids are the caller's business;
        # what the queries return is a matter of child lists and names only)
        if i % 2 == 0 and len(s["st"]["kids"]) >= 2:
            w = World.build({k: v for k, v in s["st"].items() if k != "store"}, ids=lambda j: "one-id")
            for x in w.nodes:
                x.prefix = "ns0"             # ... and carry a prefix of their own: queries go by element NAME
            for name, detail in cmp_queries(w, s["q"]):
                out.append((f"query:{name}:nodes-share-an-id", detail, {"kind": "query", "state": s["st"], "query": name, "ids": "all nodes constructed with one explicit id"}))
            n += 1
    return n, out


def py_index(op, st):
    """add_child with a position outside 0..len (Python's negative or beyond-the-end indexes; -1 = no index)"""
    if op["name"] != "add_child":
        return False
    i = op["args"][2]
    return i < -1 or i > len(st["kids"][op["args"][0] - 1])


def w_paths(tasks):
    """tasks: list of (init_key, depth, first_edge_index) - DFS of all paths below that first edge."""
    out, n = [], 0
    graph, states, qs = G["graph"], G["states"], G["qof"]

    def dfs(prefix_ops, key, depth):
        nonlocal n
        # replay the whole prefix on fresh persistent objects (history matters: same objects throughout)
        w = World.build(states[prefix_ops[0][0]])
        path = []
        for (fk, op, tk) in prefix_ops:
            bad = check_step(w, op, states[tk])
            path.append(op)
            if bad:
                for clause, detail, exc in bad:
                    out.append((opkey(op, clause, exc) + ":path", detail, {"kind": "path", "init": states[prefix_ops[0][0]], "ops": path}))
                return
        n += 1
        # queries on the final state; ancestry only where no stale parent link can be observed
        top_ok = all(x.parent is None for x in w.nodes if not any(x in p.children for p in w.nodes))
        for name, detail in cmp_queries(w, qs[key], judge_ancestry=top_ok):
            out.append((f"query:{name}:path", detail, {"kind": "path", "init": states[prefix_ops[0][0]], "ops": path}))
        if depth == 0:
            return
        for (op, tk) in graph[key]:
            if not op["ok"] or py_index(op, states[key]):
                continue          # (Python's negative / beyond-the-end positions are replayed per transition, not along every path)
            dfs(prefix_ops + [(key, op, tk)], tk, depth - 1)

    for (ik, depth, ei) in tasks:
        op, tk = graph[ik][ei]
        if op["ok"] and not py_index(op, states[ik]):
            dfs([(ik, op, tk)], tk, depth - 1)
    return n, out


def w_walks(seeds):
    out, n, steps = [], 0, 0
    graph, states, qs = G["graph"], G["states"], G["qof"]
    inits = G["inits"]
    for seed in seeds:
        rnd = random.Random(seed)
        key = rnd.choice(inits)
        w = World.build(states[key])
        ops = []
        for _ in range(G["walklen"]):
            edges = graph[key]
            good = [e for e in edges if e[0]["ok"]]
            op, tk = rnd.choice(good) if (good and rnd.random() < 0.9) else rnd.choice(edges)
            ops.append(op)
            bad = check_step(w, op, states[tk])
            if bad:
                for clause, detail, exc in bad:
                    out.append((opkey(op, clause, exc) + ":walk", detail, {"kind": "walk", "seed": seed, "ops": ops}))
                break
            key = tk
            steps += 1
            if rnd.random() < 0.1:
                for name, detail in cmp_queries(w, qs[key], judge_ancestry=False):
                    out.append((f"query:{name}:walk", detail, {"kind": "walk", "seed": seed, "ops": list(ops)}))
        n += 1
    return n, out, steps


# ------------------------------------------------------------------ code -> spec

def reachable(node):
    out = [node]
    for c in node.children:
        out += reachable(c)
    return out


def record_history(seed, nnodes, nsteps, names3):
    """One long random edit history on real objects; returns a trace for TraceForest."""
    rnd = random.Random(seed)
    w = World()
    for i in range(nnodes):
        w.new(rnd.choice(names3))
    fields = ("name", "kids", "ns", "content", "tail", "prefix", "attrs", "extras", "store")
    tr = {"init": w.pi(fields), "events": []}
    paths = [[]] + [[x] for x in names3] + [[x, y] for x in names3 for y in names3] + [[x, y, z] for x in names3 for y in names3 for z in names3][:9]
    N = nnodes

    def listed(c):
        return any(w.n(c) in p.children for p in w.nodes)

    def desc(c):
        return {w.ident(x) for x in reachable(w.n(c))}

    for _ in range(nsteps):
        kind = rnd.choice(["add", "add", "add", "insert", "insert", "remove", "remove_fail", "remove_children", "replace",
                           "replace_fail", "shift", "shift", "shift", "shift_fail", "q", "q", "q"])
        p = rnd.randint(1, N)
        c = rnd.randint(1, N)
        ev = None
        if kind in ("add", "insert"):
            free = [x for x in range(1, N + 1) if not listed(x)]
            free = [x for x in free if p not in desc(x)]
            if not free:
                continue
            c = rnd.choice(free)
            i = -1 if kind == "add" else rnd.randint(0, len(w.n(p).children))
            ev = ("add_child", [p, c, i])
        elif kind == "remove":
            ps = [x for x in range(1, N + 1) if w.n(x).children]
            if not ps:
                continue
            p = rnd.choice(ps)
            c = w.ident(rnd.choice(w.n(p).children))
            ev = ("remove_child", [p, c])
        elif kind == "remove_fail":
            if w.n(c) in w.n(p).children:
                continue
            ev = ("remove_child", [p, c])
        elif kind == "remove_children":
            if rnd.random() < 0.7:
                continue
            ev = ("remove_children", [p])
        elif kind in ("replace", "replace_fail"):
            ps = [x for x in range(1, N + 1) if w.n(x).children]
            if not ps:
                continue
            p = rnd.choice(ps)
            o = w.ident(rnd.choice(w.n(p).children))
            free = [x for x in range(1, N + 1) if not listed(x) and p not in desc(x) and x != o]
            if kind == "replace":
                free = [x for x in free if w.n(x).name == w.n(o).name]
            else:
                if rnd.random() < 0.5:
                    free = [x for x in free if w.n(x).name != w.n(o).name]
                else:
                    o2 = [x for x in range(1, N + 1) if w.n(x) not in w.n(p).children]
                    if not o2:
                        continue
                    o = rnd.choice(o2)
                    free = [x for x in free if x != o]
            if not free:
                continue
            ev = ("replace_child", [p, o, rnd.choice(free), False])
        elif kind == "shift":
            ps = [x for x in range(1, N + 1) if w.n(x).children]
            if not ps:
                continue
            p = rnd.choice(ps)
            c = w.ident(rnd.choice(w.n(p).children))
            ev = ("shift", [p, c, rnd.choice("LR"), rnd.random() < 0.5])
        elif kind == "shift_fail":
            if w.n(c) in w.n(p).children:
                continue
            ev = ("shift", [p, c, rnd.choice("LR"), rnd.random() < 0.5])
        elif kind == "q":
            qn = rnd.choice(["find_child", "find_all_children", "find_descendant", "find_all_descendants",
                             "single_by_path", "all_by_path", "ancestry", "child_index"])
            n = w.n(p)
            x = rnd.choice(names3)
            if qn == "find_child":
                args, ret = [p, x], w.ident(n.find_child(x))
            elif qn == "find_all_children":
                args, ret = [p, x], [w.ident(y) for y in n.find_all_children(x)]
            elif qn == "find_descendant":
                args, ret = [p, x], w.ident(n.find_descendant(x))
            elif qn == "find_all_descendants":
                acc = []
                n.find_all_descendants(x, acc)
                args, ret = [p, x], [w.ident(y) for y in acc]
            elif qn == "single_by_path":
                pa = rnd.choice(paths)
                args, ret = [p, pa], w.ident(n.find_single_node_by_path(list(pa)))
            elif qn == "all_by_path":
                pa = rnd.choice(paths)
                args, ret = [p, pa], [w.ident(y) for y in n.find_all_nodes_by_path(list(pa))]
            elif qn == "ancestry":
                # only where no stale parent link can be observed (nothing is claimed there)
                top = n
                while any(top in q.children for q in w.nodes):
                    top = next(q for q in w.nodes if top in q.children)
                if top.parent is not None:
                    continue
                args, ret = [p], w.ancestry(p)
            else:
                r = n.child_index(w.n(c))
                args, ret = [p, c], (-1 if r is None else r)
            tr["events"].append({"op": "q", "q": qn, "args": args, "ret": ret, "post": w.pi(fields)})
            continue
        ok, ret, exc = w.apply(*ev)
        e = {"op": ev[0], "args": ev[1], "ok": ok, "ret": ret if isinstance(ret, int) else 0, "post": w.pi(fields)}
        if exc is not None:
            e["exc"] = type(exc).__name__
        tr["events"].append(e)
        pl = w.parent_links_ok()
        if pl:
            e["parent_link_bad"] = pl
    return tr


def record_wide(seed, n=300, steps=40):
    """One parent with hundreds of children: positions above 256 (identity vs equality of ints), long child lists."""
    rnd = random.Random(seed)
    w = World()
    for i in range(n):
        w.new(rnd.choice(["a", "ab"]))
    fields = ("name", "kids", "ns", "content", "tail", "prefix", "attrs", "extras", "store")
    for c in range(2, n - 5):
        w.n(1).add_child(w.n(c))
    tr = {"init": w.pi(fields), "events": []}

    def do(op, args):
        ok, ret, exc = w.apply(op, args)
        e = {"op": op, "args": args, "ok": ok, "ret": ret if isinstance(ret, int) else 0, "post": w.pi(fields)}
        if exc is not None:
            e["exc"] = type(exc).__name__
        tr["events"].append(e)
    free = list(range(n - 5, n + 1))
    for _ in range(steps):
        kids = [w.ident(x) for x in w.n(1).children]
        k = rnd.choice(["shift", "shift", "insert", "remove", "q"])
        if k == "shift":
            c = kids[rnd.choice([len(kids) - 1, len(kids) - 2, 256, 257, 255, rnd.randrange(len(kids))])]
            do("shift", [1, c, rnd.choice("LR"), rnd.random() < 0.5])
        elif k == "insert" and free:
            c = free.pop()
            do("add_child", [1, c, rnd.choice([len(kids), len(kids) - 1, 256, 257, 0])])
        elif k == "remove":
            c = kids[rnd.choice([len(kids) - 1, 256, 257, 0])]
            do("remove_child", [1, c])
            free.append(c)
        else:
            c = kids[rnd.choice([len(kids) - 1, 256, 257, 258])]
            r = w.n(1).child_index(w.n(c))
            tr["events"].append({"op": "q", "q": "child_index", "args": [1, c], "ret": -1 if r is None else r, "post": w.pi(fields)})
    return tr


def depth_seqs(n):
    """every ordered tree with n nodes as its pre-order depth sequence (as MC_Shapes.tla enumerates them)"""
    out = [[0]]
    for _ in range(n - 1):
        out = [d + [k] for d in out for k in range(1, d[-1] + 2)]
    return out


def w_shape_queries(jobs):
    """Every ordered tree shape with 5 nodes under every naming over {a, ab}, and every shape with 6 and 7 nodes named by
    level: the path and descendant queries asked at the root, judged by TLC (TraceForest!Query).  Document order across
    BRANCHES needs more nodes than the edit model has."""
    import itertools
    fields = ("name", "kids", "ns", "content", "tail", "prefix", "attrs", "extras", "store")
    names = ["a", "ab"]
    paths = [list(t) for L in (1, 2, 3) for t in itertools.product(names, repeat=L)]
    traces = []
    for (d, nm) in jobs:
        n = len(d)
        kids = [[] for _ in range(n)]
        stack = []
        for i, dep in enumerate(d):
            del stack[dep:]
            if stack:
                kids[stack[-1]].append(i + 1)
            stack.append(i)
        w = World.build({"name": list(nm), "kids": kids})
        texts = (sum(d) + len(traces)) % 2 == 1
        if texts:
            # mixed content: nodes that have text of their own AND children (a tail too) - the search queries go by names and
            # child lists, whatever else a node carries
            for k, x in enumerate(w.nodes):
                x.content = "text %d" % k
                x.tail = "tail" if k % 2 else None
        st = w.pi(fields)
        tr = {"init": st, "events": [], "desc": {"depths": d, "names": list(nm), "every_node_has_text": texts}}
        root = w.n(1)
        for pa in paths:
            tr["events"].append({"op": "q", "q": "all_by_path", "args": [1, pa], "ret": [w.ident(y) for y in root.find_all_nodes_by_path(list(pa))], "post": st})
            tr["events"].append({"op": "q", "q": "single_by_path", "args": [1, pa], "ret": w.ident(root.find_single_node_by_path(list(pa))), "post": st})
        for x in names:
            acc = []
            root.find_all_descendants(x, acc)
            tr["events"].append({"op": "q", "q": "find_all_descendants", "args": [1, x], "ret": [w.ident(y) for y in acc], "post": st})
            tr["events"].append({"op": "q", "q": "find_descendant", "args": [1, x], "ret": w.ident(root.find_descendant(x)), "post": st})
            tr["events"].append({"op": "q", "q": "find_all_children", "args": [1, x], "ret": [w.ident(y) for y in root.find_all_children(x)], "post": st})
        if w.pi(fields) != st:
            tr["events"].append({"op": "q", "q": "find_child", "args": [1, "a"], "ret": w.ident(root.find_child("a")), "post": w.pi(fields)})     # a query changed the tree: TLC's query-mutates
        traces.append(tr)
    return traces


def w_histories(jobs):
    return [record_history(s, n, k, ["a", "ab", "b"]) for (s, n, k) in jobs]


def run(rep, tier, seed):
    wd = workdir(PID, "mc", wipe=True)
    cfg = "MC_Edit4.cfg" if tier == "quick" else "MC_Edit5.cfg"
    out = os.path.join(wd, "mc.out")
    r = run_tlc("Metapype", cfg=os.path.join(SPEC, cfg), stdout_path=out, timeout=1500)
    if not r.ok or r.invariant_violated or r.action_prop_violated:
        raise MachineryError("MC_Edit: the specification violates its own properties:\n" + r.out[-2000:])
    rep.add_tlc(r, cfg)
    T, Q = load_log(out)
    if len(Q) != r.distinct:
        raise MachineryError(f"state log incomplete: {len(Q)} logged, {r.distinct} distinct")
    os.remove(out)
    G["T"], G["Q"] = T, Q
    opcount = {}
    for t in T:
        k = t["op"]["name"] + ("" if t["op"]["ok"] else ":fail")
        opcount[k] = opcount.get(k, 0) + 1
    rep.notes["model_transitions_by_action"] = opcount
    need = {"add_child", "remove_child", "remove_child:fail", "remove_children", "replace_child", "replace_child:fail", "shift", "shift:fail"}
    if need - set(opcount):
        raise MachineryError(f"vacuous model: actions never taken: {need - set(opcount)}")

    def collect(results):
        tot = 0
        for res in results:
            tot += res[0]
            for key, detail, replay in res[1]:
                rep.violation(f"{PID}:{key}", detail[:400], replay)
        return tot

    # A. every transition
    nT = collect(parallel(w_transitions, range(len(T))))
    # B. every state's queries
    nQ = collect(parallel(w_queries, range(len(Q))))
    rep.notes["transitions_replayed"] = nT
    rep.notes["states_with_all_queries_compared"] = nQ
    rep.sample({"transition": T[len(T) // 3]})

    # graph for path replay
    states, graph, qof = {}, {}, {}
    for s in Q:
        k = canon(s["st"], FIELDS)
        states[k] = s["st"]
        qof[k] = s["q"]
        graph[k] = []
    for t in T:
        graph[canon(t["from"], FIELDS)].append((t["op"], canon(t["to"], FIELDS)))
    inits = [k for k, s in states.items() if all(len(x) == 0 for x in s["kids"])]
    G.update(graph=graph, states=states, qof=qof, inits=inits)
    # C. all paths to depth d from every initial state
    depth = 3 if tier == "quick" else 4
    tasks = [(ik, depth, ei) for ik in inits for ei in range(len(graph[ik]))]
    nP = collect(parallel(w_paths, tasks, chunk=max(1, len(tasks) // 256)))
    rep.notes["paths_replayed"] = {"depth": depth, "count": nP}
    # D. seeded random walks on TLC's graph
    nwalk, G["walklen"] = (200, 200) if tier == "quick" else (3000, 300)
    res = parallel(w_walks, [seed * 100003 + i for i in range(nwalk)])
    nW = collect([(x[0], x[1]) for x in res])
    rep.notes["random_walks"] = {"count": nW, "steps": sum(x[2] for x in res), "length": G["walklen"]}

    # E. code -> spec: long random histories judged by TLC
    ntr, nst = (60, 150) if tier == "quick" else (600, 300)
    names3 = ["a", "ab", "b"]
    rnd = random.Random(seed)
    jobs = [(seed * 7919 + i, rnd.randint(12, 20), nst) for i in range(ntr)]
    traces = [t for chunk in parallel(w_histories, jobs) for t in chunk]
    traces += [record_wide(seed * 13 + i) for i in range(2 if tier == "quick" else 12)]
    # a replace WITH deletion whose old child is no longer registered (it was replaced away before and attached again): the
    # call fails - and a failing edit leaves the tree as it was
    for deep in (False, True):
        w_ = World()
        for _k in range(6):
            w_.new("a")
        fields_ = ("name", "kids", "ns", "content", "tail", "prefix", "attrs", "extras", "store")
        tr_ = {"init": w_.pi(fields_), "events": []}
        steps_ = [("add_child", [1, 2, -1])] + ([("add_child", [2, 6, -1])] if deep else []) + [("replace_child", [1, 2, 3, True]), ("add_child", [4, 2, -1]), ("replace_child", [4, 2, 5, True])]
        for nm_, ar_ in steps_:
            ok_, ret_, exc_ = w_.apply(nm_, ar_)
            tr_["events"].append({"op": nm_, "args": ar_, "ok": ok_, "ret": ret_ if isinstance(ret_, int) else 0, "post": w_.pi(fields_)})
        traces.append(tr_)
    for tr in traces:
        for e in tr["events"]:
            if e.get("parent_link_bad"):
                rep.violation(f"{PID}:{e['op']}:parent-link:history", str(e["parent_link_bad"]), {"kind": "history", "trace": tr})
    nev = sum(len(t["events"]) for t in traces)
    rejects, tr_res = judge_traces(traces, PID, label="histories")
    rep.notes["history_events_judged_by_tlc"] = nev
    rep.cov["traces_validated_against_impl"] += len(traces)
    for rj in rejects:
        tr = traces[rj["trace"] - 1]
        e = tr["events"][rj["event"] - 1]
        if "HARNESS-precondition" in rj["clauses"]:
            raise MachineryError(f"history generator violated a usage constraint: {e['op']} {e['args']}")
        pre = tr["init"] if rj["event"] == 1 else tr["events"][rj["event"] - 2]["post"]
        for cl in rj["clauses"]:
            op = {"name": e.get("q", e["op"]) if e["op"] == "q" else e["op"], "args": e["args"]}
            key = (f"query:{e['q']}" if e["op"] == "q" else opkey(op, cl)) + (f":{e['exc']}" if e.get("exc") else "") + ":history"
            rep.violation(f"{PID}:{key}", f"TLC rejected event {rj['event']} of history {rj['trace']}: clauses {rj['clauses']}",
                          {"kind": "history-event", "pre": pre, "event": e})
    rep.sample({"history_event": traces[0]["events"][min(5, len(traces[0]["events"]) - 1)]})
    # F. code -> spec: the queries on every tree shape with 5 (all namings), 6 and 7 (named by level) nodes
    import itertools
    jobs = [(d, nm) for d in depth_seqs(5) for nm in itertools.product(["a", "ab"], repeat=5)]
    for n in ((6, 7) if tier == "quick" else (6, 7, 8)):
        for d in depth_seqs(n):
            jobs.append((d, ["a" if dep % 2 else "ab" for dep in d]))
            jobs.append((d, ["a"] * n))
    straces = [t for chunk in parallel(w_shape_queries, jobs) for t in chunk]
    rejects, _ = judge_traces([{"init": t["init"], "events": t["events"]} for t in straces], PID, label="shape-queries", timeout=3000)
    nsq = sum(len(t["events"]) for t in straces)
    rep.notes["shape_query_events_judged_by_tlc"] = nsq
    rep.cov["traces_validated_against_impl"] += len(straces)
    for rj in rejects:
        tr = straces[rj["trace"] - 1]
        e = tr["events"][rj["event"] - 1]
        for cl in rj["clauses"]:
            rep.violation(f"{PID}:query:{e['q']}:shapes", f"tree {tr['desc']}: {e['q']} {e['args']} returned {e['ret']}; TLC: {rj['clauses']}",
                          {"kind": "shape-query", "desc": tr["desc"], "event": {k: v for k, v in e.items() if k != 'post'}})
    nev += nsq
    from harness import suite
    suite.run_for(rep, "C09")
    rep.cov["evaluations"] = nT + nQ + nP + nW + nev
    rep.cov["distinct_nontrivial"] = nT + nQ
    rep.cov["rule"] = ("every labelled transition and every state (with all query values) of the TLC state graph of MC_Edit "
                       "is one case; paths/walks/histories add history-dependent cases")
    rep.cov["exhaustive"] = True
    rep.assumptions += ["edits respect the usage constraint of the statement (a node is attached to at most one parent, no cycles)",
                        "insert indexes are within 0..len; the stored parent link of an unlisted node is not judged"]
