"""Recorder and drivers for validation traces (C04, C05): observe validate.node on every node
and validate.tree on the root, both modes, under a watchdog; named mutation operators that
plant defects into valid trees."""
import os
import random
import signal

from harness.common import REPO, MachineryError
from harness import tables, c02
from harness.tables import walk


class _Timeout(Exception):
    pass


def _alarm(signum, frame):
    raise _Timeout()


def _outcome(fn):
    from metapype.eml.exceptions import MetapypeRuleError
    signal.signal(signal.SIGVTALRM, _alarm)          # CPU time, not wall-clock (no false timeouts on a loaded machine)
    signal.setitimer(signal.ITIMER_VIRTUAL, 30)
    try:
        fn()
        return {"kind": "ok", "exc": ""}
    except _Timeout:
        return {"kind": "timeout", "exc": ""}
    except MetapypeRuleError as e:
        return {"kind": "rule", "exc": type(e).__name__}
    except RecursionError:
        return {"kind": "other", "exc": "RecursionError"}
    except Exception as e:  # noqa: BLE001
        return {"kind": "other", "exc": type(e).__name__}
    finally:
        signal.setitimer(signal.ITIMER_VIRTUAL, 0)


def observe_tree(root, per_node=True):
    """One TraceValidate event for the tree rooted at root."""
    from metapype.eml import validate
    from metapype.eml.validation_errors import ValidationError
    nodes = list(walk(root))
    idx = {id(n): i + 1 for i, n in enumerate(nodes)}

    def shape_ok(e):
        return (isinstance(e, tuple) and len(e) >= 3 and isinstance(e[0], ValidationError) and isinstance(e[1], str)
                and id(e[2]) in idx)

    ev = {"name": [n.name if isinstance(n.name, str) and n.name.isascii() else "~nonascii" for n in nodes],
          "kids": [[idx[id(c)] for c in n.children] for n in nodes], "root": 1,
          "plain": [not n.attributes and n.content is None for n in nodes],
          "nodeFF": [], "nodeRaised": [], "nodeErrs": [], "nodeShape": []}
    for n in nodes:
        if per_node:
            ev["nodeFF"].append(_outcome(lambda: validate.node(n)))
            errs = []
            ev["nodeRaised"].append(_outcome(lambda: validate.node(n, errs)))
            ev["nodeErrs"].append([e[0].name if shape_ok(e) else "~bad" for e in errs])
            ev["nodeShape"].append(all(shape_ok(e) and e[2] is n for e in errs))
        else:
            ev["nodeFF"].append({"kind": "ok", "exc": ""})
            ev["nodeRaised"].append({"kind": "ok", "exc": ""})
            ev["nodeErrs"].append([])
            ev["nodeShape"].append(True)
    ev["ff"] = _outcome(lambda: validate.tree(root))
    errs = []
    ev["craised"] = _outcome(lambda: validate.tree(root, errs))
    ev["coll"] = [[e[0].name if shape_ok(e) else "~bad", idx.get(id(e[2]), 0) if isinstance(e, tuple) and len(e) >= 3 else 0, bool(shape_ok(e))] for e in errs]
    if ev["craised"]["kind"] == "ok":
        # validating into a list that already holds an entry must append exactly the same problems
        sentinel = ("earlier entry",)
        errs2 = [sentinel]
        o2 = _outcome(lambda: validate.tree(root, errs2))
        if o2["kind"] != "ok":
            ev["craised"] = o2
        elif errs2[0] is not sentinel or [(e[0], id(e[2])) for e in errs2[1:] if shape_ok(e)] != [(e[0], id(e[2])) for e in errs if shape_ok(e)]:
            ev["craised"] = {"kind": "other", "exc": "CollectingDependsOnEarlierEntries"}
        else:
            # ... also when the earlier entries are the findings of the previous run on this very tree (re-validation into
            # the same list): the run appends all of them again and touches none of the old ones
            errs3 = list(errs)
            o3 = _outcome(lambda: validate.tree(root, errs3))
            key = lambda es: [(e[0], e[1], id(e[2])) for e in es if shape_ok(e)]  # noqa: E731
            if o3["kind"] != "ok":
                ev["craised"] = o3
            elif len(errs3) != 2 * len(errs) or any(a is not b for a, b in zip(errs3, errs)) or key(errs3[len(errs):]) != key(errs):
                ev["rerun"] = False
    ev["per_node"] = per_node
    ev.setdefault("rerun", True)
    return ev


# ----------------------------------------------------------------------------- mutation operators

UNICODE_POOL = ["", " ", "\t\n", " ", "x" * 3000, "<&>\"'", "ｆｕｌｌ", "‮RTL", "emoji 😀", "\x00ctl\x1f", "ñé漢字", "1e5", "-0", "nan", "٣",
                "http://[::1]/", "https://user:pw@host.example/x", "http://:@h.example/", "ftp://u@h.example", "http://h.example:99999/", "http://h/%zz", "12:00", "2020-02-30", "%s %d {0}", "\\N{X}", "null", "None", "True",
                # numbers beyond what the interpreter converts without protest (int() refuses more than 4300 digits with ValueError)
                "9" * 4301, "-" + "1" * 5000, " " + "7" * 4400 + " ", "0" * 6000, "1" * 4400 + ".5", "1e" + "9" * 400, "0." + "0" * 5000 + "1"]


def mutate(root, rnd, t, ops=None):
    """Apply one named mutation somewhere in the tree; returns a description (for the replay file)."""
    from metapype.model.node import Node
    nodes = list(walk(root))
    known = list(t.node_map)
    op = rnd.choice(ops or ["drop", "duplicate", "swap", "rename-unknown", "rename-misplaced", "corrupt-content-class", "corrupt-content-reject-class", "corrupt-content-unicode",
                            "add-attr", "remove-attr", "corrupt-attr", "add-unknown-child", "add-misplaced-child", "graft-under-metadata",
                            "clear-content", "set-content-on-empty", "nonstring-attr", "twin-corrupt-attr-value", "twin-corrupt-earlier"])
    n = rnd.choice(nodes)
    where = [x.name for x in n.get_ancestry()] if hasattr(n, "get_ancestry") else [n.name]
    try:
        if op == "drop" and n.parent is not None:
            n.parent.remove_child(n)
        elif op == "duplicate" and n.parent is not None:
            n.parent.add_child(n.copy(), index=n.parent.children.index(n))
        elif op == "swap" and len(n.children) >= 2:
            i, j = rnd.sample(range(len(n.children)), 2)
            n.children[i], n.children[j] = n.children[j], n.children[i]
        elif op == "rename-unknown":
            n.name = rnd.choice(["zzUnknown", "Dataset", "title ", "", "ｔｉｔｌｅ", "eml:eml"])
        elif op == "rename-misplaced":
            n.name = rnd.choice(known)
        elif op == "corrupt-content-class":
            cls = rnd.choice([c for c in c02.GEN if c != "SURROGATE"])
            n.content = c02.gen(cls, "", rnd)
            op += ":" + cls
        elif op == "corrupt-content-reject-class":
            # content from a class the decision table (MC_Content) REJECTS for this node's rule: out-of-range numbers,
            # unlisted enumeration values, malformed dates ... - invalid for THIS rule, not just unusual
            unit = t.node_map.get(n.name)
            rej = [c for c in t.C if c["unit"] == unit and c["verdict"] == "REJECT" and c["enum"] in ("none", "out") and c["cls"] not in ("NONE", "SURROGATE")]
            if not rej:
                return None
            c = rnd.choice(rej)
            n.content = c02.gen(c["cls"], c["bucket"], rnd)
            op += ":" + c["cls"] + (":" + c["bucket"] if c["bucket"] else "")
        elif op == "corrupt-content-unicode":
            n.content = rnd.choice(UNICODE_POOL)
        elif op == "corrupt-content-surrogate":
            # a str that is not Unicode text (lone surrogate; a JSON document can carry it): what a validator says about it is
            # not specified anywhere, but whatever validate.node says, validate.tree must say the same (C05)
            leaves = [x for x in nodes if not x.children]
            victim = rnd.choice(leaves) if leaves else n
            victim.content = rnd.choice(["Gau\ud800ghan", "\udfff", "x\ud83d"])
        elif op == "add-attr":
            n.add_attribute(rnd.choice(["id", "zzAttr", "scope", "system", "xml:lang", "", "a:b:c", "::", "x:id", "{0}"]), rnd.choice(UNICODE_POOL))
        elif op == "remove-attr" and n.attributes:
            n.remove_attribute(rnd.choice(list(n.attributes)))
        elif op == "corrupt-attr" and n.attributes:
            n.add_attribute(rnd.choice(list(n.attributes)), rnd.choice(UNICODE_POOL))
        elif op == "add-unknown-child":
            n.add_child(Node("zzUnknownChild"), index=rnd.randint(0, len(n.children)))
        elif op == "add-misplaced-child":
            n.add_child(Node(rnd.choice(known), content=rnd.choice([None, "x"])), index=rnd.randint(0, len(n.children)))
        elif op == "graft-under-metadata":
            md = [x for x in nodes if x.name == "metadata"]
            host = rnd.choice(md) if md else n
            j = Node(rnd.choice(["zzForeign", "title", "dataset"]), content=rnd.choice([None, "t", " "]))
            j.add_child(Node(rnd.choice(["zzInner", "para"]), content="x"))
            host.add_child(j)
        elif op == "clear-content":
            n.content = None
        elif op == "set-content-on-empty":
            n.content = rnd.choice(["x", "", " "])
        elif op in ("twin-corrupt-attr-value", "twin-corrupt-earlier") and n.parent is not None and n.attributes:
            # two look-alike siblings (same name, content, attribute names, children) that differ in ONE attribute value
            twin = n.copy()
            n.parent.add_child(twin, index=n.parent.children.index(n) + 1)
            victim = twin if op == "twin-corrupt-attr-value" else n
            a = rnd.choice(list(victim.attributes))
            victim.add_attribute(a, rnd.choice(["zzUnlisted", "", "Document", " system"]))
        elif op == "nonstring-attr":
            n.add_attribute(rnd.choice(["id", "scope"]), rnd.choice([None, 5, 1.5, True]))
        else:
            return None
    except Exception as e:  # noqa: BLE001 - a mutation operator that does not apply
        return None
    return {"op": op, "at": where}


def reid(root, idfn=lambda i: "one-id"):
    """The same tree with node ids chosen by the caller (default: ONE id for every node), obtained through the public
    API: save as JSON, rewrite the ids, load.  Ids are the caller's business; child lists, names and texts define the tree."""
    import json
    from metapype.model import metapype_io
    d = json.loads(metapype_io.to_json(root))
    k = [0]

    def go(o):
        body = next(iter(o.values()))
        body[0]["id"] = idfn(k[0])
        k[0] += 1
        for c in body[-1]["children"]:
            go(c)
    go(d)
    return metapype_io.from_json(json.dumps(d))


def fixture_root():
    from metapype.model import metapype_io
    return metapype_io.from_xml(open(os.path.join(REPO, "tests", "data", "eml.xml")).read())


def chain(kind, depth):
    """Deep chains (C04 (d))."""
    from metapype.model.node import Node
    if kind == "section":
        root = Node("abstract")
        cur = root
        for _ in range(depth):
            s = Node("section")
            cur.add_child(s)
            cur = s
        cur.add_child(Node("para", content="x"))
    elif kind == "taxon":
        root = Node("taxonomicCoverage")
        cur = root
        for _ in range(depth):
            s = Node("taxonomicClassification")
            cur.add_child(s)
            cur = s
    elif kind == "list":
        root = Node("para")
        cur = root
        for i in range(depth):
            s = Node(["itemizedlist", "listitem", "para"][i % 3])
            cur.add_child(s)
            cur = s
    else:
        root = Node("zzUnknownRoot")
        cur = root
        for _ in range(depth):
            s = Node("zzUnknown")
            cur.add_child(s)
            cur = s
    return root
