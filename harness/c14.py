"""C14 - the node registry tracks exactly the live nodes.

spec -> code : MC_Reg (create / import / copy / attach / detach / replace(+-delete) /
               delete(+-children) from the empty registry, <= N ids) - every transition is
               replayed after the genuine access history of its source state (breadth-first
               spanning tree of TLC's graph), comparing child lists, the registry restricted
               to tracked ids, returned ids and retrievability by id.
code -> spec : prune / expand / from_xml / from_json on EML trees with the registry logged
               before and after, judged by TraceForest (clause set 'discarding' / 'import');
               id uniqueness over many creations.
"""
import copy as _copy
import json
import os
import random
import uuid

from harness import common
from harness.common import MachineryError, run_tlc, SPEC, workdir, parallel, judge_traces, REPO
from harness.world import World, canon, jdump, Node
from harness.c09 import load_log

PID = "C14"
FIELDS = ("name", "kids", "store")
G = {}


def shape_doc(kind, shape):
    """Document for Import(kind, shape): shape[k] = 1-based position of the parent in pre-order."""
    n = len(shape)
    kids = {j: [k for k in range(1, n + 1) if shape[k - 1] == j] for j in range(1, n + 1)}
    if kind == "xml":
        def x(j):
            return "<a>" + "".join(x(k) for k in kids[j]) + "</a>"
        return x(1)

    if kind == "legacy-json":
        def g(j):
            return {"a": [{"id": str(uuid.uuid4())}, {"attributes": {}}, {"content": None}, {"children": [g(k) for k in kids[j]]}]}
        return json.dumps(g(1))

    def d(j):
        return {"a": [{"id": None if kind == "json-null-ids" else str(uuid.uuid4())}, {"nsmap": {}}, {"prefix": None}, {"attributes": {}}, {"extras": {}},
                      {"content": None}, {"tail": None}, {"children": [d(k) for k in kids[j]]}]}
    return json.dumps(d(1))


def apply_op(w, op):
    if op["name"] == "import":
        from metapype.model import metapype_io
        kind, shape = op["args"]
        try:
            doc = shape_doc(kind, shape)
            if kind == "legacy-json":
                from metapype.model import mp_io
                root = mp_io.from_json(json.loads(doc))
            else:
                root = metapype_io.from_xml(doc) if kind == "xml" else metapype_io.from_json(doc)
            return True, w.track_tree(root), None
        except Exception as e:  # noqa: BLE001
            return False, 0, e
    return w.apply(op["name"], op["args"])


def check_registry(w):
    """Retrievability by id and id uniqueness on the implementation."""
    bad = []
    ids = [x.id for x in w.nodes]
    if len(set(ids)) != len(ids):
        bad.append(("id-collision", str(ids)))
    return bad


def step(w, op, to):
    ok, ret, exc = apply_op(w, op)
    if ok != op["ok"]:
        return [("raised-unexpectedly" if op["ok"] else "did-not-raise", repr(exc), exc)]
    bad = []
    after = w.pi(FIELDS)
    if canon(after, ("kids", "name")) != canon(to, ("kids", "name")):
        bad.append(("tree", f"expected {jdump(to)} got {jdump(after)}", None))
    if sorted(after["store"]) != sorted(to["store"]):
        missing = sorted(set(to["store"]) - set(after["store"]))
        extra = sorted(set(after["store"]) - set(to["store"]))
        if missing:
            bad.append(("live-node-unregistered", f"ids {missing} should be retrievable; op {op['name']} {op['args']}", None))
        if extra:
            bad.append(("discarded-node-still-registered", f"ids {extra} should be gone; op {op['name']} {op['args']}", None))
    if op["name"] in ("create", "copy", "import") and ret != op["ret"]:
        bad.append(("ret", f"expected first new id {op['ret']} got {ret}", None))
    for cl, det in check_registry(w):
        bad.append((cl, det, None))
    return bad


def w_transitions(idx):
    import gc
    gc.freeze()               # TLC's graph is not garbage: keep the collections of id_only_observer cheap
    out, n = [], 0
    T, access = G["T"], G["access"]
    for i in idx:
        t = T[i]
        w = World()
        ops = []
        dead = False
        for o, tk in access[canon(t["from"], FIELDS)]:
            ok, ret, exc = apply_op(w, o)
            ops.append(o)
            if not ok:
                dead = True   # reported at the transition where it is the last op
                if type(exc).__name__ == "OperationDidNotTerminate":
                    out.append((f"{o['name']}:did-not-terminate", repr(exc), {"kind": "history", "ops": list(ops)}))
                    return n, out
                break
        if dead:
            continue
        if canon(w.pi(FIELDS), FIELDS) != canon(t["from"], FIELDS):
            continue          # a divergence on the access path is reported at its own transition
        ops.append(t["op"])
        results = step(w, t["op"], t["to"])
        hung = any(type(exc).__name__ == "OperationDidNotTerminate" for _, _, exc in results)
        for clause, det, exc in results:
            flags = ""
            a = t["op"]["args"]
            if t["op"]["name"] == "replace_child":
                flags = ":delete" if a[3] else ":keep"
            if t["op"]["name"] == "delete":
                flags = ":recursive" if a[1] else ":single"
            if t["op"]["name"] == "import":
                flags = ":" + a[0]
            e = f":{type(exc).__name__}" if exc is not None else ""
            out.append((f"{t['op']['name']}{flags}:{clause}{e}", det, {"kind": "history", "ops": ops, "expected_to": t["to"]}))
        n += 1
        if hung:
            break             # a call that does not return: reported once per worker, do not wait for every other case
        if not results and t["op"]["name"] in ("delete", "replace_child"):
            # once more with every stored parent pointer cleared through the public `parent` setter before the call: which
            # nodes a recursive delete reaches is a matter of the child lists
            w2 = World()
            okp = True
            for o, tk in access[canon(t["from"], FIELDS)]:
                okp = okp and apply_op(w2, o)[0]
            if okp and canon(w2.pi(FIELDS), FIELDS) == canon(t["from"], FIELDS):
                for x in w2.nodes:
                    x.parent = None
                ok2, ret2, exc2 = apply_op(w2, t["op"])
                got = sorted(w2.pi(FIELDS)["store"])
                if ok2 == t["op"]["ok"] and got != sorted(t["to"]["store"]):
                    flags = (":recursive" if t["op"]["args"][1] else ":single") if t["op"]["name"] == "delete" else (":delete" if t["op"]["args"][3] else ":keep")
                    out.append((f"{t['op']['name']}{flags}:registry-depends-on-stored-parent-pointers", f"expected registry {sorted(t['to']['store'])} got {got}",
                                {"kind": "history", "ops": ops, "expected_to": t["to"], "variant": "all parent pointers set to None before the last call"}))
        if not results and i % 3 == 0 and not any(o["name"] == "import" for o, _ in access[canon(t["from"], FIELDS)]) and t["op"]["name"] != "import":
            # once more with ids the caller chose - unique, but unusual: empty, zero, blank, look-alikes of None
            w3 = World()
            w3.explicit_ids = ["", 0, "0", " ", "None", -1, "null", 0.5]
            okp = True
            for o, tk in access[canon(t["from"], FIELDS)]:
                okp = okp and apply_op(w3, o)[0]
            if okp and canon(w3.pi(FIELDS), FIELDS) == canon(t["from"], FIELDS):
                for clause, det, exc in step(w3, t["op"], t["to"]):
                    out.append((f"{t['op']['name']}:{clause}:caller-chosen-ids", det, {"kind": "history", "ops": ops, "expected_to": t["to"], "variant": "explicit ids '', 0, '0', ' ', 'None', -1, 'null', 0.5"}))
            elif okp:
                out.append((f"{t['op']['name']}:history-diverges:caller-chosen-ids", f"after the access history the state is {jdump(w3.pi(FIELDS))}, the model says {jdump(t['from'])}",
                            {"kind": "history", "ops": ops[:-1], "variant": "explicit ids '', 0, '0', ' ', 'None', -1, 'null', 0.5"}))
        if not results:
            for clause, det in id_only_observer(w):
                out.append((f"{t['op']['name']}:{clause}", det, {"kind": "history", "ops": ops, "expected_to": t["to"], "observer": "keeps ids only"}))
    return n, out


def id_only_observer(w):
    """The registry is the library's promise that an id is enough: a caller that keeps only the ids (no node object)
    must find every registered node again, with the same name and the same children."""
    import gc
    st = w.pi(FIELDS)
    ids = [x.id for x in w.nodes]
    w.nodes.clear()
    w.idx.clear()
    gc.collect()
    bad = []
    for i in sorted(st["store"]):
        inst = Node.get_node_instance(ids[i - 1])
        if inst is None:
            bad.append(("live-node-unregistered:caller-keeps-only-the-id", f"node {i} was registered and never deleted, but is gone once no reference to it is held"))
        elif inst.name != st["name"][i - 1] or [c.id for c in inst.children] != [ids[k - 1] for k in st["kids"][i - 1]]:
            bad.append(("registered-node-changed:caller-keeps-only-the-id", f"node {i}"))
    return bad[:3]


# ------------------------------------------------------------------ code -> spec on EML trees

def fixture_world():
    from metapype.model import metapype_io
    xml = open(os.path.join(REPO, "tests", "data", "eml.xml")).read()
    w = World()
    root = metapype_io.from_xml(xml)
    w.track_tree(root)
    return w, root


def all_fields():
    return ("name", "kids", "ns", "content", "tail", "prefix", "attrs", "extras", "store")


def slim(st):
    """EML traces only need structure and registry; blank the text fields (keeps TLC fast)."""
    n = len(st["kids"])
    st = dict(st)
    st["ns"] = [[] for _ in range(n)]
    st["content"] = [0] * n
    st["tail"] = [0] * n
    st["attrs"] = [[] for _ in range(n)]
    st["extras"] = [[] for _ in range(n)]
    st["prefix"] = ["~"] * n
    return st


def record_eml(seed):
    """One trace: import the fixture, plant junk, prune (strict or not), add references, expand."""
    from metapype.eml import validate, references
    rnd = random.Random(seed)
    tr = {"init": slim(World().pi(all_fields())), "events": []}
    w, root = fixture_world()
    # the import itself: every node registered under a fresh, distinct id
    tr["events"].append({"op": "import_doc", "args": [1], "ok": True, "ret": len(w.nodes), "post": slim(w.pi(all_fields()))})
    nodes = list(w.nodes)
    for _ in range(rnd.randint(1, 5)):
        host = rnd.choice(nodes)
        kind = rnd.choice(["unknown", "misplaced", "subtree", "starve", "corrupt-inner"])
        if kind in ("starve", "corrupt-inner"):
            # make a KNOWN, allowed inner node invalid while it still has valid descendants: strict prune must discard
            # the whole subtree from the registry, non-strict prune must keep all of it
            inner = [x for x in nodes if len(x.children) >= 2 and x.parent is not None]
            if not inner:
                continue
            victim = rnd.choice(inner)
            if kind == "starve":
                victim.remove_child(victim.children[0])
            else:
                victim.content = "zq no content allowed here"
            continue
        if kind == "unknown":
            j = Node("junk" + str(rnd.randint(0, 9)))
        elif kind == "misplaced":
            j = Node(rnd.choice(["title", "creator", "para", "dataset"]))
        else:
            j = Node("junk")
            j.add_child(Node("title", content="t"))
            j.add_child(Node("junkchild"))
        host.add_child(j, index=rnd.randint(0, len(host.children)))
        w.track_tree(j)
    tr["events"].append({"op": "resync", "args": [], "ok": True, "ret": 0, "post": slim(w.pi(all_fields()))})
    strict = rnd.random() < 0.5
    if seed % 3 != 0:
        # prune started INSIDE the tree: on a planted (unknown or misplaced) node while it is attached, or on any inner node;
        # judged on the whole tree - what the tree still lists stays registered, what left it is gone
        attached = [x for x in w.nodes if x is not root and x.parent is not None and x in x.parent.children]
        planted = [x for x in attached if x.name.startswith("junk")]
        for target in ([rnd.choice(planted)] if planted and seed % 3 == 1 else []) + [rnd.choice(attached)]:
            if not (target.parent is not None and target in target.parent.children):
                continue
            try:
                validate.prune(target, strict=strict)
                ok = True
            except Exception as e:  # noqa: BLE001
                ok = False
            tr["events"].append({"op": "discarding", "args": [1, "prune"], "ok": ok, "ret": 0, "post": slim(w.pi(all_fields()))})
    try:
        validate.prune(root, strict=strict)
        ok = True
    except Exception as e:  # noqa: BLE001 - C15 reports it; here only the registry is judged
        ok = False
    tr["events"].append({"op": "discarding", "args": [1, "prune"], "ok": ok, "ret": 0, "post": slim(w.pi(all_fields()))})
    # references: besides the fixture's own, one reference to a definition WITHOUT children (nothing to copy: the
    # references node must leave the registry all the same)
    ds = root.find_child("dataset")
    if ds is not None and rnd.random() < 0.7:
        empty_def = Node("associatedParty")
        empty_def.add_attribute("id", "empty-def-1")
        holder = Node("associatedParty")
        ref = Node("references", content="empty-def-1")
        holder.add_child(ref)
        for x in (empty_def, holder):
            ds.add_child(x)
        for x in (empty_def, holder, ref):
            w.track(x)
        # ... and one element holding SEVERAL references nodes (to a definition with two children, to the empty one, again)
        def2 = Node("associatedParty")
        def2.add_attribute("id", "two-children-def")
        def2.add_child(Node("organizationName", content="o"))
        def2.add_child(Node("role", content="r"))
        multi = Node("associatedParty")
        for tgt in (["two-children-def", "empty-def-1", "two-children-def"] if rnd.random() < 0.5 else ["empty-def-1", "two-children-def"]):
            multi.add_child(Node("references", content=tgt))
        multi.add_child(Node("role", content="own"))
        for x in (def2, multi):
            ds.add_child(x)
            w.track_tree(x)
        # ... and a references node that sits INSIDE the element it names (two levels down)
        if seed % 2:
            def3 = Node("associatedParty")
            def3.add_attribute("id", "holds-a-reference-to-itself")
            def3.add_child(Node("organizationName", content="o3"))
            ad = Node("address")
            ad.add_child(Node("references", content="holds-a-reference-to-itself"))
            def3.add_child(ad)
            def3.add_child(Node("role", content="r3"))
            ds.add_child(def3)
            w.track_tree(def3)
        tr["events"].append({"op": "resync", "args": [], "ok": True, "ret": 0, "post": slim(w.pi(all_fields()))})
    try:
        references.expand(root)
        ok = True
    except Exception:  # noqa: BLE001
        ok = False
    # copies made by expand are new nodes: track them in pre-order of the tree
    for x in _walk(root):
        if id(x) not in w.idx:
            w.track(x)
    tr["events"].append({"op": "discarding", "args": [1, "expand"], "ok": ok, "ret": 0, "post": slim(w.pi(all_fields()))})
    return tr


def record_unknown_root(seed):
    """prune of a tree whose own root is not a known element: prune reports the root as removed; with nothing to detach
    it from, 'removed' can only mean the registry - the whole tree must be gone from it, an unrelated tree must stay."""
    from metapype.eml import validate
    rnd = random.Random(seed)
    Node.store.clear()
    w = World(clear=False)
    root = Node(rnd.choice(["dataPackage", "zzRoot", "Dataset"]))
    root.add_child(Node("title", content="t"))
    c = Node("creator")
    root.add_child(c)
    c.add_child(Node("organizationName", content="o"))
    if rnd.random() < 0.5:
        root.add_child(Node("zzJunk"))
    other = Node("dataset")
    other.add_child(Node("title", content="unrelated"))
    w.track_tree(root)
    w.track_tree(other)
    tr = {"init": slim(w.pi(all_fields())), "events": [], "desc": {"seed": seed, "case": "prune of a parentless unknown root"}}
    ok, listed = True, False
    try:
        out = validate.prune(root, strict=rnd.random() < 0.5)
        listed = any(isinstance(x, tuple) and x and x[0] is root for x in out)
    except Exception:  # noqa: BLE001
        ok = False
    if ok and listed:        # only when prune itself says it removed the root is the whole tree 'discarded'
        tr["events"].append({"op": "discarding_whole", "args": [1, "prune"], "ok": ok, "ret": 0, "post": slim(w.pi(all_fields()))})
    else:
        tr["events"].append({"op": "resync", "args": [], "ok": True, "ret": 0, "post": slim(w.pi(all_fields()))})
    return tr


def record_sibling_replace(nk, io, inew):
    """replace_child(old, new) where `new` already is a child of the same parent (a sibling moved over another one): whatever
    the resulting child list is, a node it still lists stays registered, and what left the tree with deletion is gone."""
    Node.store.clear()
    w = World(clear=False)
    par = Node("p")
    kids = []
    for k in range(nk):
        c = Node("c")                    # (replace_child wants old and new to carry one name)
        c.add_child(Node("g%d" % k))
        par.add_child(c)
        kids.append(c)
    w.track_tree(par)
    tr = {"init": slim(w.pi(all_fields())), "events": [], "desc": {"case": "replace_child with a sibling as the new child", "children": nk, "old": io, "new": inew}}
    try:
        par.replace_child(kids[io], kids[inew])
        ok = True
    except Exception:  # noqa: BLE001
        ok = False
    # (the same node may now be listed twice: project the child lists as they are)
    tr["events"].append({"op": "discarding", "args": [1, "replace_child"], "ok": ok, "ret": 0, "post": slim(w.pi(all_fields()))})
    return tr


def record_wrong_parent_replace(nk, io, fresh):
    """replace_child asked of a node that does NOT list the old child (the wrong parent, a sibling, the child itself): the call
    fails - and a failing call discards nothing: the old child stays in its tree and stays registered."""
    Node.store.clear()
    w = World(clear=False)
    par = Node("p")
    kids = []
    for k in range(nk):
        c = Node("c")
        c.add_child(Node("g%d" % k))
        par.add_child(c)
        kids.append(c)
    other = Node("p")
    other.add_child(Node("c"))
    w.track_tree(par)
    w.track_tree(other)
    new = Node("c") if fresh else other.children[0]
    if fresh:
        w.track(new)
    tr = {"init": slim(w.pi(all_fields())), "events": [], "desc": {"case": "replace_child asked of a node that does not list the old child", "children": nk, "old": io, "fresh_new_child": fresh}}
    for asked in (other, kids[(io + 1) % nk], kids[io]):
        try:
            asked.replace_child(kids[io], new)
            ok = True
        except Exception:  # noqa: BLE001
            ok = False
        tr["events"].append({"op": "discarding", "args": [1, "replace_child"], "ok": ok, "ret": 0, "post": slim(w.pi(all_fields()))})
    return tr


def _walk(n):
    yield n
    for c in n.children:
        yield from _walk(c)


def w_eml(seeds):
    return [record_eml(s) for s in seeds] + [record_unknown_root(s) for s in seeds[:2]]


def run(rep, tier, seed):
    wd = workdir(PID, "mc", wipe=True)
    cfg = "MC_Reg4.cfg" if tier == "quick" else "MC_Reg5.cfg"
    out = os.path.join(wd, "mc.out")
    r = run_tlc("Metapype", cfg=os.path.join(SPEC, cfg), stdout_path=out, timeout=2400)
    if not r.ok or r.invariant_violated or r.action_prop_violated:
        raise MachineryError(f"{cfg}: the specification violates its own properties:\n" + r.out[-2000:])
    rep.add_tlc(r, cfg)
    T, _ = load_log(out)
    os.remove(out)
    # breadth-first access paths from the empty registry
    graph = {}
    for t in T:
        graph.setdefault(canon(t["from"], FIELDS), []).append((t["op"], canon(t["to"], FIELDS)))
    empty = canon({"name": [], "kids": [], "store": []}, FIELDS)
    access = {empty: []}
    frontier = [empty]
    while frontier:
        nxt = []
        for k in frontier:
            for (op, tk) in graph.get(k, []):
                if tk not in access:
                    access[tk] = access[k] + [(op, tk)]
                    nxt.append(tk)
        frontier = nxt
    if len(access) != r.distinct:
        raise MachineryError(f"access paths cover {len(access)} states, TLC found {r.distinct}")
    G.update(T=T, access=access)
    opcount = {}
    for t in T:
        opcount[t["op"]["name"]] = opcount.get(t["op"]["name"], 0) + 1
    rep.notes["model_transitions_by_action"] = opcount
    need = {"create", "import", "copy", "add_child", "remove_child", "replace_child", "delete"}
    if need - set(opcount):
        raise MachineryError(f"vacuous model: actions never taken: {need - set(opcount)}")
    res = parallel(w_transitions, range(len(T)))
    nT = 0
    for n, outl in res:
        nT += n
        for key, det, replay in outl:
            rep.violation(f"{PID}:{key}", det[:400], replay)
    rep.notes["transitions_replayed_after_genuine_history"] = nT
    rep.sample({"history": [o for o, _ in max(access.values(), key=len)]})

    # id uniqueness over many creations (direct, copy, import)
    n_ids = 20000 if tier == "quick" else 200000
    w = World()
    ids = set()
    base = Node("a")
    base.add_child(Node("b"))
    cnt = 0
    while cnt < n_ids:
        x = Node("a")
        y = base.copy()
        for z in (x, y, y.children[0]):
            if z.id in ids:
                rep.violation(f"{PID}:id-collision", f"id {z.id} handed out twice", {"kind": "ids", "n": cnt})
            ids.add(z.id)
            if Node.get_node_instance(z.id) is not z:
                rep.violation(f"{PID}:fresh-node-not-retrievable", z.id, {"kind": "ids", "n": cnt})
            cnt += 1
    # ids the caller chose that differ only in letter case (or in what a "tidy" key function would fold: padding, Unicode
    # composition) are DIFFERENT ids: each node is retrievable as itself, deleting one leaves the others alone
    Node.store.clear()
    fam = ["DS-a1", "ds-A1", "ds-a1", "DS-A1", " ds-a1", "ds-a1 ", "Jos\u00e9", "Jose\u0301", "\u212b", "\u00c5"]
    made = [Node("n", id=i_) for i_ in fam]
    for i_, x in zip(fam, made):
        if Node.get_node_instance(i_) is not x:
            rep.violation(f"{PID}:explicit-id-not-retrievable-as-itself", f"id {i_!r} gives {Node.get_node_instance(i_)!r}", {"kind": "ids", "ids": fam})
            break
    Node.delete_node_instance(fam[0], children=False)
    for i_, x in list(zip(fam, made))[1:]:
        if Node.get_node_instance(i_) is not x:
            rep.violation(f"{PID}:delete:unrelated-id-unregistered", f"deleting {fam[0]!r} made {i_!r} unavailable", {"kind": "ids", "ids": fam})
            break
    cnt += len(fam)
    Node.store.clear()
    # ... also when the host program brings its own random number generator back to an earlier state between two batches
    # (re-seeding, setstate): that is no deliberate reuse of an id
    import random as _random
    state = _random.getstate()
    for how in ("seed", "setstate"):
        batches = []
        for _ in range(2):
            if how == "seed":
                _random.seed(12345)
            else:
                _random.setstate(state)
            batch = [Node("a") for _ in range(50)] + [base.copy() for _ in range(25)]
            batches.append(batch)
        seen = {}
        for z in (n for b in batches for top in b for n in [top] + list(top.children)):
            if z.id in seen and seen[z.id] is not z:
                rep.violation(f"{PID}:id-collision:host-random-state-repeats", f"id {z.id} handed out twice after random.{how}", {"kind": "ids", "how": how})
                break
            seen[z.id] = z
            cnt += 1
    _random.setstate(state)
    Node.store.clear()
    rep.notes["fresh_ids_checked"] = cnt

    # code -> spec on EML trees
    ntr = 24 if tier == "quick" else 300
    traces = [t for chunk in parallel(w_eml, [seed * 31 + i for i in range(ntr)]) for t in chunk]
    traces += [record_sibling_replace(nk, io, inew) for nk in (2, 3, 4) for io in range(nk) for inew in range(nk) if io != inew]
    traces += [record_wrong_parent_replace(nk, io, fresh) for nk in (2, 3) for io in range(nk) for fresh in (True, False)]
    Node.store.clear()
    rejects, _ = judge_traces(traces, PID, label="eml")
    rep.cov["traces_validated_against_impl"] += len(traces)
    for rj in rejects:
        tr = traces[rj["trace"] - 1]
        e = tr["events"][rj["event"] - 1]
        for cl in rj["clauses"]:
            which = e["args"][1] if e["op"] == "discarding" else e["op"]
            rep.violation(f"{PID}:{which}:{cl}", f"TLC rejected event {rj['event']} ({e['op']} {e['args']}) of EML trace {rj['trace']}: {rj['clauses']}",
                          {"kind": "eml-trace", "seed_index": rj["trace"] - 1, "event": e["op"], "args": e["args"]})
    # large instances: lineages far deeper and fans far wider than any bounded model; TLC judges (Steps!DeleteF, ReplaceChildF)
    big = []
    for shape, size in (("chain", 120), ("chain", 520), ("chain", 700), ("fan", 600), ("comb", 400)):
        Node.store.clear()
        kids = [[] for _ in range(size + 1)]
        for i in range(2, size + 1):
            par = i - 1 if shape == "chain" else (1 if shape == "fan" else (i - 2 if i % 2 == 1 and i > 2 else i - 1))
            kids[par - 1].append(i)
        w = World.build({"name": ["a"] * (size + 1), "kids": kids})      # node size+1: a spare single node
        tr = {"init": slim(w.pi(all_fields())), "events": [], "desc": {"shape": shape, "nodes": size}}
        # replace the second node (with everything below it) by the spare node, deleting it; then delete what is left of the tree
        for name, args in (("replace_child", [1, 2, size + 1, True]), ("delete", [1, True])):
            ok, ret, exc = w.apply(name, args)
            tr["events"].append({"op": name, "args": args, "ok": ok, "ret": ret if isinstance(ret, int) else 0, "post": slim(w.pi(all_fields()))})
        big.append(tr)
    Node.store.clear()
    rejects, _ = judge_traces([{"init": t["init"], "events": t["events"]} for t in big], PID, label="large", timeout=3000)
    rep.cov["traces_validated_against_impl"] += len(big)
    for rj in rejects:
        tr = big[rj["trace"] - 1]
        e = tr["events"][rj["event"] - 1]
        rep.violation(f"{PID}:{e['op']}:large:{','.join(sorted(rj['clauses']))}", f"{e['op']} {e['args']} on a {tr['desc']} tree: clauses {rj['clauses']}",
                      {"kind": "large", "desc": tr["desc"], "event": rj["event"], "clauses": rj["clauses"]})
    rep.notes["large_instances"] = [t["desc"] for t in big]
    from harness import suite
    suite.run_for(rep, "C14")
    rep.cov["evaluations"] = nT + cnt + sum(len(t["events"]) for t in traces)
    rep.cov["distinct_nontrivial"] = nT
    rep.cov["rule"] = "one case per labelled transition of MC_Reg, replayed after the genuine history that reaches its source state"
    rep.cov["exhaustive"] = True
    rep.assumptions += ["no id is deliberately reused; delete is called only on registered ids, recursively only when the descendants are still registered"]
