"""C17 - suggested insertion index is schema-legal and restores validity when possible.

MC_Insert (TLC): for every rule x every existing child sequence up to the budget x every
candidate name, the set Acceptable of indexes the statement allows; the documented rank
algorithm is transcribed (RankIndex) and RankIndex in Acceptable is a bounded theorem checked
on the real table.  spec -> code: child_insert_index must answer inside TLC's set (or refuse
with ChildNotAllowedError exactly when the name is foreign); is_allowed_child is compared with
the set of names that occur in some valid sequence.  code -> spec: long accepted sequences
with one child removed are run through the code and judged by TLC (TraceInsert.tla).
"""
import os
import random

from harness import common
from harness.common import MachineryError, run_tlc, SPEC, workdir, parallel, judge_traces
from harness.c09 import load_log_all
from harness import c01

PID = "C17"
G = {}


HOSTILE_FOREIGN = ["%s", "100%d", "%(name)s", "percent%", "{0}", "{name}", "", " ", "a:b", "\\N{X}", "\u00e9l\u00e9ment", "x" * 500]


_USED = {}


def call_index(unit, element, w, c, rules, same_id=None, foreign_name=None, used=False, below=False, moved=False):
    from metapype.eml import rule
    from metapype.model.node import Node
    from metapype.eml.exceptions import ChildNotAllowedError
    p = c01.realise(unit, element, w, rules, same_id=same_id, prefix="ns0" if same_id else None, unregister=bool(same_id))
    if below and c != c01.FOREIGN:
        # the parent's children are not bare: each carries a subtree in which the candidate's NAME occurs (grandchildren and
        # below) - an insert position is a matter of the parent's own child list
        for k, ch in enumerate(list(p.children)):
            g = Node(c)
            ch.add_child(g)
            if k % 2:
                g.add_child(Node(c))
    if below or moved:
        # ... and tails (as an import with clean=False leaves them on every element of a pretty-printed document; text after an
        # inline element of mixed content): a position is a matter of the names
        for k, ch in enumerate(p.children):
            ch.tail = ["\n    ", " ", "tail text", "\t"][k % 4]
    r = rule.get_rule(element) if element else rule.Rule(unit)
    earlier = None
    if used:
        # the parent's rule as an object with a past: ONE object per rule for the whole worker that has validated this
        # very parent (collecting, then fail-fast) before it is asked; its answer must be the one of a fresh object,
        # and the error list of the earlier validation is the caller's, not the rule's
        r = _USED.get(unit)
        if r is None:
            r = _USED[unit] = rule.Rule(unit)
        earlier = []
        for errs in ((None, earlier) if used == "collecting-last" else (earlier, None)):
            try:
                r.validate_rule(p, errs)
            except Exception:  # noqa: BLE001
                pass
        before = list(earlier)
    try:
        cand = Node((foreign_name if foreign_name is not None else c01.FOREIGN_NAME) if c == c01.FOREIGN else c)
        if moved:
            # the candidate comes from elsewhere: it was a child of another (larger) parent of the same kind and was taken out with
            # remove_child - its parent pointer still names the old parent.  The position asked for is one in `p`
            other = Node(p.name)
            for nm in list(w) + list(w) + [x for x in (c,) if x != c01.FOREIGN] * 3:
                other.add_child(Node(c01.FOREIGN_NAME if nm in (c01.FOREIGN, c01.ANY) else nm))
            other.add_child(cand, index=0)
            other.remove_child(cand)
        got = r.child_insert_index(p, cand)
        res = ("idx", got)
    except ChildNotAllowedError:
        res = ("refused", -1)
    except Exception as e:  # noqa: BLE001
        res = ("raised", e)
    if earlier is not None and earlier != before:
        res = ("raised", RuntimeError("the error list of an earlier validation grew while the rule was asked for an insert position"))
    Node.store.clear()
    return res


def w_insert(idx):
    out, n = [], 0
    rules = G["rules"]
    for i in idx:
        e = G["I"][i]
        unit, w = e["unit"], e["w"]
        el = G["elem"].get(unit)
        accs = e["acc"] if isinstance(e["acc"], dict) else {}     # a rule without children: empty function
        cases = [(c, acc, None) for c, acc in list(accs.items()) + [(c01.FOREIGN, [])]]
        if len(w) >= 2:          # the same sequence with siblings that were all constructed with one explicit id
            cases += [(c, acc, "dup-id") for c, acc in accs.items()]
        names_sigma = set(G["dfa_sigma"].get(unit, ()))
        if i % 5 == 0:           # the one foreign name of the model realised by names that mean something to string formatting
            cases += [(c01.FOREIGN, [], "foreign:" + h) for h in HOSTILE_FOREIGN if h not in names_sigma]
            # ... and by look-alikes of the names the rule does allow
            cases += [(c01.FOREIGN, [], "foreign:" + h) for a in sorted(x for x in names_sigma if not x.startswith("~"))[:2]
                      for h in ("{u}" + a, "x}" + a, "x:" + a, a + " ", a.capitalize(), a + "s") if h not in names_sigma]
        if i % 3 == 2 and len(w) >= 1:
            cases += [(c, acc, "below") for c, acc in accs.items()]
        if i % 3 == 0:
            cases += [(c, acc, "moved") for c, acc in list(accs.items()) + [(c01.FOREIGN, [])]]
        if i % 3 == 1 and unit != "@metadata":
            cases += [(c, acc, "used-rule:" + ("collecting-last" if i % 2 else "fail-fast-last")) for c, acc in list(accs.items()) + [(c01.FOREIGN, [])]]
        for c, acc, same_id in cases:
            fname = None
            if same_id and same_id.startswith("foreign:"):
                fname, same_id = same_id[8:], None
            used = False
            if same_id and same_id.startswith("used-rule:"):
                used, same_id = same_id[10:], None
            below = same_id == "below"
            moved = same_id == "moved"
            if below or moved:
                same_id = None
            kind, got = call_index(unit, el, w, c, rules, same_id, fname, used=used, below=below, moved=moved)
            n += 1
            replay = {"kind": "insert", "unit": unit, "element": el, "children": w, "candidate": c, "acceptable": acc, "children_constructed_with_id": same_id, "rule_object_used_before": used, "children_carry_subtrees_with_the_candidate_name": below, "candidate_detached_from_another_parent": moved}
            unit_ = unit
            unit = unit + (":siblings-share-an-id" if same_id else "")
            if kind == "raised":
                out.append((f"raised:{type(got).__name__}:{unit}", f"{unit} children {w} candidate {c}: {got!r}", replay))
            elif c == c01.FOREIGN:
                if kind != "refused":
                    out.append((f"foreign-child-not-refused:{unit}", f"{unit} children {w}: index {got} for a name the rule does not allow", replay))
            elif kind == "refused":
                out.append((f"allowed-child-refused:{unit}", f"{unit} children {w} candidate {c}", replay))
            elif got not in acc:
                if not (isinstance(got, int) and 0 <= got <= len(w)):
                    cl = "out-of-bounds"
                else:
                    cl = "not-acceptable"
                out.append((f"{cl}:{unit}", f"{unit} children {w} candidate {c}: suggested {got}, acceptable {acc}", replay))
            unit = unit_
    return n, out


def hash_(s):
    return sum(ord(c) * (i + 1) for i, c in enumerate(s))


def run(rep, tier, seed):
    from harness.world import Node  # noqa: F401
    G["n_long"] = 0
    wd, rules, node_map, dfas = c01.prepare(rep, tier, pid=PID)
    budget = 400 if tier == "quick" else 4500
    cfgp = os.path.join(wd, "MC_Insert.cfg")
    open(cfgp, "w").write(open(os.path.join(SPEC, "MC_Insert.cfg")).read().replace("Budget = 400", f"Budget = {budget}"))
    out = os.path.join(wd, "insert.out")
    r = run_tlc("MC_Insert", cfg=cfgp, stdout_path=out, timeout=3000, lib=wd)
    if r.invariant_violated:
        raise MachineryError("SPEC ERROR: the transcribed rank algorithm leaves Acceptable on the real table (RankIndexOK):\n" + r.out[-3000:])
    if not r.ok:
        raise MachineryError("MC_Insert failed:\n" + r.out[-2000:])
    rep.add_tlc(r, f"MC_Insert.cfg Budget={budget} (RankIndex in Acceptable for every rule, word, candidate)")
    log = load_log_all(out)
    os.remove(out)
    I, U = log["I"], log["U"]
    elem = {}
    for el, ru in node_map.items():
        if el != "metadata":
            elem.setdefault(ru, el)
    G.update(I=I, rules=rules, elem=elem, dfa_sigma={u: list(d.sigma) for u, d in dfas.items()})
    res = parallel(w_insert, range(len(I)), timeout=7200)
    nI = 0
    for n, outl in res:
        nI += n
        for key, det, replay in outl:
            rep.violation(f"{PID}:{key}", det[:500], replay)
    rep.notes["insert_cases_replayed"] = nI
    skipped = [u["unit"] for u in U if not u["applies"] and u["unit"] != "@metadata"]
    rep.notes["rules_skipped_duplicate_child_name"] = skipped

    # is_allowed_child == occurs in some valid child sequence
    from metapype.eml import rule
    nA = 0
    for u in U:
        unit = u["unit"]
        if unit == "@metadata":
            continue
        names = set(u["names"])
        robj = rule.Rule(unit)
        declared = set(u["order"])
        lookalikes = {v for a in sorted(names)[:4] for v in ("{u}" + a, "x}" + a, "x:" + a, a + " ", " " + a, a.capitalize(), a[:-1], a + "s", a.upper())} - names - declared
        for nm in sorted(declared | names | {c01.FOREIGN_NAME, "zzOther", "", "%s"} | lookalikes):
            nA += 1
            try:
                got = robj.is_allowed_child(nm)
            except Exception as e:  # noqa: BLE001
                rep.violation(f"{PID}:is_allowed_child:raised:{type(e).__name__}:{unit}", repr(e), {"kind": "allowed", "unit": unit, "name": nm})
                continue
            if bool(got) != (nm in names):
                rep.violation(f"{PID}:is_allowed_child:{'false-positive' if got else 'false-negative'}:{unit}",
                              f"{unit}: is_allowed_child({nm!r}) = {got}; occurs in some valid sequence: {nm in names}",
                              {"kind": "allowed", "unit": unit, "name": nm, "expected": nm in names})
    rep.notes["is_allowed_child_queries"] = nA
    # the element NAMED metadata (validation looks away from its content; its rule lists no child): every name is refused
    from metapype.eml.exceptions import ChildNotAllowedError
    for pname in ("metadata",):
        try:
            mrule = rule.get_rule(pname)
        except Exception:  # noqa: BLE001 - C10's business
            continue
        for kids in ([], ["zzAny"], ["title", "zzAny"]):
            for cand in ("title", "zzForeign", "metadata", "unitList", "%s"):
                par = Node(pname)
                for k in kids:
                    par.add_child(Node(k))
                nA += 1
                try:
                    got = mrule.child_insert_index(par, Node(cand))
                    rep.violation(f"{PID}:foreign-child-not-refused:metadataRule:parent-named-metadata", f"metadata children {kids} candidate {cand}: index {got} for a name the rule does not allow",
                                  {"kind": "insert", "unit": "metadataRule", "element": "metadata", "children": kids, "candidate": cand})
                except ChildNotAllowedError:
                    pass
                except Exception as e:  # noqa: BLE001
                    rep.violation(f"{PID}:raised:{type(e).__name__}:metadataRule", repr(e), {"kind": "insert", "unit": "metadataRule", "children": kids, "candidate": cand})
                try:
                    if mrule.is_allowed_child(cand):
                        rep.violation(f"{PID}:is_allowed_child:false-positive:metadataRule", f"is_allowed_child({cand!r}) on the rule of metadata", {"kind": "allowed", "unit": "metadataRule", "name": cand})
                except Exception as e:  # noqa: BLE001
                    rep.violation(f"{PID}:is_allowed_child:raised:{type(e).__name__}:metadataRule", repr(e), {"kind": "allowed", "unit": "metadataRule", "name": cand})
                Node.store.clear()

    # code -> spec: long accepted sequences minus one child
    rnd = random.Random(seed)
    cases = []
    per = 12 if tier == "quick" else 100
    applies = {u["unit"] for u in U if u["applies"]}
    for unit, d in sorted(dfas.items()):
        if unit not in applies:
            continue
        sig = [a for a in d.sigma if a != c01.FOREIGN]
        d2 = d
        walks = [w for w in c01.live_walks(d2, per, rnd, maxlen=10) if w and c01.FOREIGN not in w and d.out[d.run(w)] == "ACCEPT"]
        # a long sequence too (one loop of the automaton pumped): TLC's Acceptable is quadratic in the length, so 40-60
        # children in general and 257+ only for a few small rules in the thorough tier
        n_long = G.get("n_long", 0)
        if len(sig) <= 8:
            G["n_long"] = n_long + 1
            reps = (257, 280) if (tier == "thorough" and len(sig) <= 3) else (50, 52)
            walks += [w for w in c01.pumped_words(d2, rnd, count=1, reps=reps) if w and c01.FOREIGN not in w and d.out[d.run(w)] == "ACCEPT"][:1]
        for v in walks[:per + 1]:
            # short walks: one random child removed; long ones: the first, the last and a random child removed, and every
            # name of the rule offered to the sequence without its last child (wide parents, ends of the list)
            trials = [(list(v[:pos] + v[pos + 1:]), v[pos]) for pos in ({rnd.randrange(len(v))} if len(v) < 40 else ({0, len(v) - 1} if tier == "quick" else {0, len(v) - 1, rnd.randrange(len(v))}))]
            if len(v) >= 40:
                names_ = [c for c in sig if not c.startswith("~")]
                trials += [(list(v[:-1]), c) for c in (names_ if tier == "thorough" else sorted(set(names_[-2:])))]
            for w, c in trials:
                kind, got = call_index(unit, elem.get(unit), w, c, rules)
                if kind == "raised":
                    rep.violation(f"{PID}:raised:{type(got).__name__}:{unit}", repr(got), {"kind": "insert", "unit": unit, "children": w, "candidate": c})
                    continue
                if kind == "refused":
                    continue
                cases.append({"unit": unit, "w": w, "c": c, "obs": got})
    rejects, rt = judge_traces(cases, PID, module="TraceInsert", cfg="TraceInsert.cfg", label="long", lib=wd, timeout=5400)
    rep.cov["traces_validated_against_impl"] += len(cases)
    for rj in rejects:
        e = cases[rj["case"] - 1]
        for cl in rj["clauses"]:
            rep.violation(f"{PID}:{cl}:{e['unit']}:long", f"{e['unit']} children {e['w']} candidate {e['c']}: suggested {e['obs']}, acceptable {rj['acceptable']}",
                          {"kind": "insert", "unit": e["unit"], "children": e["w"], "candidate": e["c"], "acceptable": rj["acceptable"]})
    rep.sample({"unit": I[len(I) // 2]["unit"], "children": I[len(I) // 2]["w"], "acceptable_per_candidate": I[len(I) // 2]["acc"]})
    rep.cov["evaluations"] = nI + nA + len(cases)
    rep.cov["distinct_nontrivial"] = nI
    rep.cov["rule"] = "distinct (rule, existing child sequence, candidate name) triples enumerated by TLC with their acceptable index sets"
    rep.assumptions += ["each rule names a child at most once (rules that do not are skipped and listed)",
                        "existing children are drawn from the rule's own names"]
