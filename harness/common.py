"""Shared infrastructure: paths, TLC runner, transition-log parser, evidence, findings.

Exit-code contract of ./check: 0 held, 1 violation (not listed as known finding),
2 machinery failure (never reported as a violation).
"""
import hashlib
import json
import os
import re
import shutil
import subprocess
import sys
import time

VERIF = os.path.dirname(os.path.dirname(os.path.abspath(__file__)))
REPO = os.environ.get("VERIF_REPO", "/repo")
SPEC = os.path.join(VERIF, "spec")
WORK = os.environ.get("VERIF_WORK", os.path.join(VERIF, ".work"))       # overridden only by the mutant self-tests
EVID = os.environ.get("VERIF_EVIDENCE_DIR", os.path.join(VERIF, "evidence"))
TLA_CP = "/opt/veriftools/tla/tla2tools.jar:/opt/veriftools/tla/CommunityModules-deps.jar"
NCPU = int(os.environ.get("VERIF_NPROC") or 0) or os.cpu_count() or 4        # VERIF_NPROC: run a check on fewer cores (e.g. next to another run)


class MachineryError(Exception):
    """The verifier itself failed (TLC crash, spec self-inconsistency, timeout)."""


def use_repo():
    """Make `import metapype` resolve to the working tree under REPO."""
    src = os.path.join(REPO, "src")
    m = sys.modules.get("metapype")
    if m is not None and os.path.realpath(os.path.dirname(m.__file__)) == os.path.realpath(os.path.join(src, "metapype")):
        return                      # already bound to the working tree: keep one set of classes
    if src in sys.path:
        sys.path.remove(src)
    sys.path.insert(0, src)
    for m in [m for m in sys.modules if m == "metapype" or m.startswith("metapype.")]:
        del sys.modules[m]
    import logging
    logging.disable(logging.CRITICAL)  # the library logs expected errors (child_index etc.)
    import metapype  # noqa
    got = os.path.realpath(os.path.dirname(metapype.__file__))
    want = os.path.realpath(os.path.join(src, "metapype"))
    if got != want:
        raise MachineryError(f"metapype imported from {got}, expected {want}")


def workdir(pid, sub=None, wipe=False):
    d = os.path.join(WORK, pid) if sub is None else os.path.join(WORK, pid, sub)
    if wipe and os.path.isdir(d):
        shutil.rmtree(d)
    os.makedirs(d, exist_ok=True)
    return d


# --------------------------------------------------------------------------- TLC

_TLA_UNESC = re.compile(r'\\(.)')


def _unescape_tla_string(s):
    # TLC prints strings with \" and \\ escapes (and \n, \t literally escaped)
    def rep(m):
        c = m.group(1)
        return {"n": "\n", "t": "\t", "r": "\r", "f": "\f"}.get(c, c)
    return _TLA_UNESC.sub(rep, s)


class TlcResult:
    def __init__(self, out, rc, wall):
        self.out = out
        self.rc = rc
        self.wall = wall
        self.generated = self.distinct = self.depth = None
        m = re.search(r"(\d+) states generated, (\d+) distinct states found", out)
        if m:
            self.generated, self.distinct = int(m.group(1)), int(m.group(2))
        m = re.search(r"depth of the complete state graph search is (\d+)", out)
        if m:
            self.depth = int(m.group(1))
        self.ok = (rc == 0 and "Model checking completed. No error has been found." in out) or \
                  (rc == 0 and "Finished computing initial states" in out and "Error:" not in out)
        self.invariant_violated = re.findall(r"Invariant (\S+) is violated", out)
        self.action_prop_violated = re.findall(r"Action property (\S+) is violated", out)

    def json_lines(self):
        """Every PrintT(ToJson(..)) line, parsed."""
        res = []
        for line in self.out.splitlines():
            if line.startswith('"') and line.endswith('"') and len(line) > 2 and line[1] in "[{":
                res.append(json.loads(_unescape_tla_string(line[1:-1])))
        return res

    def coverage(self):
        """action name -> (distinct, total) from -coverage output."""
        cov = {}
        for m in re.finditer(r"<(\w+) line \d+, col \d+ to line \d+, col \d+ of module \w+>: (\d+):(\d+)", self.out):
            n, a, b = m.group(1), int(m.group(2)), int(m.group(3))
            pa, pb = cov.get(n, (0, 0))
            cov[n] = (max(pa, a), max(pb, b))
        return cov


def run_tlc(module, cfg=None, cwd=None, workers=None, timeout=1200, extra=(), env=None,
            deadlock=False, coverage=False, stdout_path=None, lib=None):
    """Run TLC on spec/<module>.tla (copied view: cwd defaults to SPEC). Returns TlcResult.

    Raises MachineryError on timeout or on TLC-internal errors (parse errors, evaluation
    errors). Invariant violations are *returned*, not raised.
    """
    cwd = cwd or SPEC
    meta = os.path.join(WORK, "tlcmeta", f"{module}-{os.getpid()}-{time.time_ns()}")
    os.makedirs(meta, exist_ok=True)
    cmd = ["java", "-XX:+UseParallelGC", "-Xmx12g", "-Xss256m"] + ([f"-DTLA-Library={lib}"] if lib else []) + ["-cp", TLA_CP + ":" + SPEC, "tlc2.TLC",
           "-workers", str(workers or NCPU), "-metadir", meta, "-noGenerateSpecTE"]
    if not deadlock:
        cmd.append("-deadlock")
    if coverage:
        cmd += ["-coverage", "1"]
    if cfg:
        cmd += ["-config", cfg]
    cmd += list(extra) + [module]
    e = dict(os.environ)
    e.pop("JAVA_TOOL_OPTIONS", None)
    if env:
        e.update(env)
    t0 = time.time()
    try:
        if stdout_path:
            with open(stdout_path, "w") as fo:
                p = subprocess.run(cmd, cwd=cwd, stdout=fo, stderr=subprocess.STDOUT, timeout=timeout, env=e)
            out = open(stdout_path).read()
        else:
            p = subprocess.run(cmd, cwd=cwd, stdout=subprocess.PIPE, stderr=subprocess.STDOUT,
                               timeout=timeout, env=e, text=True)
            out = p.stdout
    except subprocess.TimeoutExpired:
        raise MachineryError(f"TLC timed out after {timeout}s on {module}")
    finally:
        shutil.rmtree(meta, ignore_errors=True)
    r = TlcResult(out, p.returncode, time.time() - t0)
    bad = ("Parsing or semantic analysis failed", "TLC threw an unexpected exception",
           "Error: Evaluating", "Error: TLC", "was not able to", "java.lang.", "Error: The ",
           "Error: In evaluation", "Error: Attempted", "Fatal error")
    if any(b in out for b in bad) and not r.invariant_violated and not r.action_prop_violated:
        tail = "\n".join(out.splitlines()[-40:])
        raise MachineryError(f"TLC failed on {module} ({cfg}):\n{tail}")
    return r


class OperationDidNotTerminate(Exception):
    """Raised by the harness watchdog (never by the library): a call did not return in time."""


class deadline:
    """with deadline(5): call_library()  - CPU-time watchdog; use in the main thread of a (forked) worker only."""

    def __init__(self, seconds=5):
        self.seconds = seconds

    def __enter__(self):
        import signal

        def on_alarm(signum, frame):
            raise OperationDidNotTerminate(f"still running after {self.seconds}s of CPU time")
        # CPU time of this process (ITIMER_VIRTUAL), not wall-clock: a loaded machine must never look like a hang
        self.old = signal.signal(signal.SIGVTALRM, on_alarm)
        signal.setitimer(signal.ITIMER_VIRTUAL, self.seconds)

    def __exit__(self, *exc):
        import signal
        signal.setitimer(signal.ITIMER_VIRTUAL, 0)
        signal.signal(signal.SIGVTALRM, self.old)
        return False


# --------------------------------------------------------------------------- findings

def load_known_findings():
    p = os.path.join(VERIF, "known_findings.json")
    if not os.path.exists(p):
        return []
    return json.load(open(p))["findings"]


class Violation:
    def __init__(self, key, what, replay):
        self.key = key          # stable canonical description of the failing input/site/history
        self.what = what
        self.replay = replay    # JSON-serialisable, self-contained


class Report:
    """Collects violations and coverage, writes evidence and replay files, decides exit code."""

    def __init__(self, pid, tier, seed, level="model_checking"):
        self.pid, self.tier, self.seed, self.level = pid, tier, seed, level
        self.t0 = time.time()
        self.violations = []
        self.cov = {"states": 0, "transitions": 0, "traces_validated_against_impl": 0,
                    "evaluations": 0, "distinct_nontrivial": 0, "samples": []}
        self.assumptions = []
        self.notes = {}
        self._seen_keys = set()

    def add_tlc(self, r, label=None):
        if r.distinct:
            self.cov["states"] += r.distinct
        if r.generated:
            self.cov["transitions"] += r.generated
        if label:
            self.notes.setdefault("tlc_runs", []).append(
                {"config": label, "distinct": r.distinct, "generated": r.generated, "wall_s": round(r.wall, 2)})

    def sample(self, s, cap=6):
        if len(self.cov["samples"]) < cap:
            self.cov["samples"].append(s)

    def violation(self, key, what, replay):
        if key in self._seen_keys:
            return
        self._seen_keys.add(key)
        self.violations.append(Violation(key, what, replay))

    def finish(self):
        known = [k for k in load_known_findings() if k["property"] == self.pid]
        known_active = {k["key"]: k for k in known if k.get("status") == "known"}
        rdir = workdir(self.pid, "replay", wipe=True)
        new, matched = [], []
        for v in self.violations:
            (matched if v.key in known_active else new).append(v)
        for v in matched:
            print(f"KNOWN-FINDING: property={self.pid} {v.key}: {v.what}")
        lines = []
        for i, v in enumerate(new[:400]):
            h = hashlib.sha1(v.key.encode()).hexdigest()[:10]
            path = os.path.join(rdir, f"{self.pid}-{h}.json")
            with open(path, "w") as f:
                json.dump({"property": self.pid, "key": v.key, "what": v.what, "replay": v.replay}, f, indent=1, default=str)
            if i < 25:
                lines.append(f"VIOLATION property={self.pid} replay={path}")
            print(f"  -> {v.key}: {v.what}")
        for ln in lines:
            print(ln)
        cov = dict(self.cov)
        cov.update(self.notes)
        if not cov["samples"]:
            cov["samples"] = ["(no sample recorded)"]
        ev = {"property_id": self.pid, "tier": self.tier, "seed": self.seed, "level": self.level,
              "coverage": cov, "assumptions": self.assumptions,
              "wall_s": round(time.time() - self.t0, 2), "violations": len(new),
              "known_findings_matched": [v.key for v in matched]}
        if re.fullmatch(r"C\d+", self.pid):           # SELFTEST and the like are not properties: no evidence file
            os.makedirs(EVID, exist_ok=True)
            with open(os.path.join(EVID, f"{self.pid}.json"), "w") as f:
                json.dump(ev, f, indent=1, default=str)
        print(f"[{self.pid}] tier={self.tier} seed={self.seed} states={cov['states']} transitions={cov['transitions']} "
              f"impl_traces={cov['traces_validated_against_impl']} evaluations={cov['evaluations']} "
              f"violations={len(new)} known={len(matched)} wall={ev['wall_s']}s")
        return 1 if new else 0


# --------------------------------------------------------------------------- trace validation

def _judge_one(traces, pid, module, cfg, label, timeout, lib):
    d = workdir(pid, "traces")
    path = os.path.join(d, f"{label}.json")
    with open(path, "w") as f:
        json.dump(traces, f, separators=(",", ":"))
    r = run_tlc(module, cfg=os.path.join(SPEC, cfg), workers=1, timeout=timeout, env={"TRACE_FILE": path},
                stdout_path=os.path.join(d, f"{label}.out"), lib=lib)
    if "Model checking completed. No error has been found." not in r.out:
        tail = "\n".join(l for l in r.out.splitlines() if not l.startswith('"'))[-3000:]
        raise MachineryError(f"trace validation did not complete for {label}:\n{tail}")
    os.remove(path)
    return [j for j in r.json_lines() if j.get("k") == "REJECT"], r


def judge_traces(traces, pid, module="TraceForest", cfg="TraceForest.cfg", label="traces", timeout=1800, lib=None,
                 max_bytes=30_000_000):
    """Hand a batch of recorded traces / events to TLC (code -> spec). Returns (rejects, TlcResult-like).

    Large batches are split into chunks of about max_bytes of JSON, each judged by its own TLC process (several at a
    time); the index field of every rejection (trace / event / case) is mapped back to the position in `traces`.
    Raises MachineryError if TLC did not consume every event (post-condition) or failed itself."""
    sizes = [len(json.dumps(t, separators=(",", ":"))) for t in traces] if len(traces) > 200 else None
    total = sum(sizes) if sizes else 0
    if not sizes or total <= max_bytes:
        return _judge_one(traces, pid, module, cfg, label, timeout, lib)
    chunks, cur, acc, start = [], [], 0, 0
    for i, (t, sz) in enumerate(zip(traces, sizes)):
        if cur and acc + sz > max_bytes:
            chunks.append((start, cur))
            cur, acc, start = [], 0, i
        cur.append(t)
        acc += sz
    if cur:
        chunks.append((start, cur))
    from concurrent.futures import ThreadPoolExecutor

    def work(k):
        off, part = chunks[k]
        rej, r = _judge_one(part, pid, module, cfg, f"{label}-{k}", timeout, lib)
        for j in rej:
            for key in ("trace", "event", "case"):
                if key in j and not (key == "event" and "trace" in j):
                    j[key] += off
        return rej, r
    with ThreadPoolExecutor(max_workers=min(6, max(1, NCPU // 3))) as ex:
        results = list(ex.map(work, range(len(chunks))))
    rejects = [j for rej, _ in results for j in rej]

    class Sum:
        distinct = sum((r.distinct or 0) for _, r in results)
        generated = sum((r.generated or 0) for _, r in results)
        out = ""
    return rejects, Sum


def _limit_worker_memory():
    """A library call that builds an ever-growing structure (a change under test may do that) ends in MemoryError in the
    worker instead of exhausting the machine."""
    import resource
    # relative to what the forked worker already maps (a thorough run forks from a large parent): 12 GB of headroom
    vm = 0
    try:
        for line in open("/proc/self/status"):
            if line.startswith("VmSize:"):
                vm = int(line.split()[1]) * 1024
    except OSError:
        pass
    lim = vm + 12 * 1024 ** 3
    try:
        resource.setrlimit(resource.RLIMIT_AS, (lim, lim))
    except (ValueError, OSError):
        pass


def parallel(func, items, nproc=None, chunk=None, timeout=2400):
    """Run func(list_chunk) -> result over chunks of items in forked workers; returns list of results."""
    import multiprocessing as mp
    nproc = nproc or NCPU
    items = list(items)
    if not items:
        return []
    chunk = chunk or max(1, (len(items) + nproc * 4 - 1) // (nproc * 4))
    chunks = [items[i:i + chunk] for i in range(0, len(items), chunk)]
    if nproc == 1 or len(chunks) == 1:
        return [func(c) for c in chunks]
    ctx = mp.get_context("fork")
    with ctx.Pool(nproc, initializer=_limit_worker_memory) as pool:
        try:
            return pool.map_async(func, chunks).get(timeout=timeout)
        except mp.TimeoutError:
            pool.terminate()
            raise MachineryError(f"workers of {getattr(func, '__name__', func)} did not finish within {timeout}s "
                                 "(a library call may not terminate on some input)")
