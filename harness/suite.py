"""Traces harvested from the repository's own test-suite (recorder.py), validated against
TraceForest.tla: catches changes that the existing tests execute but do not assert on."""
import glob
import json
import os
import shutil
import subprocess

from harness.common import REPO, VERIF, MachineryError, workdir, judge_traces


def harvest(pid):
    out = workdir(pid, "suite-traces", wipe=True)
    env = dict(os.environ, PYTHONPATH=f"{VERIF}:{os.path.join(REPO, 'src')}", METAPYPE_VERIF_TRACE="1", METAPYPE_VERIF_TRACE_DIR=out)
    p = subprocess.run(["/venv/bin/python", "-m", "pytest", "-q", "-p", "no:cacheprovider", "-p", "harness.recorder", "tests"],
                       cwd=REPO, env=env, stdout=subprocess.PIPE, stderr=subprocess.STDOUT, text=True, timeout=900)
    summary = p.stdout.strip().splitlines()[-1] if p.stdout.strip() else ""
    traces = []
    for f in sorted(glob.glob(os.path.join(out, "*.json"))):
        traces.append(json.load(open(f)))
    if not traces:
        raise MachineryError("the recorder produced no traces:\n" + p.stdout[-1500:])
    shutil.rmtree(out, ignore_errors=True)
    return traces, summary


def judge(pid, traces):
    strip = [{"init": t["init"], "events": [{k: v for k, v in e.items() if k != "call"} for e in t["events"]]} for t in traces]
    rejects, r = judge_traces(strip, pid, label="suite", timeout=1800)
    out = []
    for rj in rejects:
        t = traces[rj["trace"] - 1]
        e = t["events"][rj["event"] - 1]
        out.append({"test": t["test"], "event": rj["event"], "op": e["op"], "call": e.get("call", e["op"]), "clauses": rj["clauses"], "args": e.get("args")})
    return out, r


def summary(traces):
    ops = {}
    for t in traces:
        for e in t["events"]:
            ops[e["op"]] = ops.get(e["op"], 0) + 1
    return {"tests_with_traces": len(traces), "events": sum(len(t["events"]) for t in traces), "events_by_kind": ops}


ROUTE = {"C09": {"add_child", "remove_child", "remove_children", "replace_child", "shift", "set_name"},
         "C11": {"readonly"},
         "C12": {"copy", "set_content", "set_tail", "set_prefix", "add_attribute", "remove_attribute", "add_extras"},
         "C13": {"add_namespace", "remove_namespace"},
         "C14": {"create", "delete", "discarding", "import_doc"}}


def run_for(rep, pid):
    """Harvest the repository's tests, judge them, report the rejections that belong to property pid."""
    traces, summ = harvest(pid)
    rejects, r = judge(pid, traces)
    rep.cov["states"] += r.distinct or 0
    rep.cov["transitions"] += r.generated or 0
    rep.cov["traces_validated_against_impl"] += len(traces)
    info = summary(traces)
    info["pytest"] = summ
    info["events_of_this_property"] = sum(n for k, n in info["events_by_kind"].items() if k in ROUTE[pid])
    rep.notes["repository_test_suite_traces"] = info
    for x in rejects:
        mine = x["op"] in ROUTE[pid] or (pid == "C13" and "ns" in x["clauses"] and x["op"] == "add_child") \
            or (pid == "C14" and "store" in x["clauses"])
        if not mine:
            continue
        for cl in x["clauses"]:
            rep.violation(f"{pid}:suite:{x['call']}:{cl}", f"trace of {x['test']}, event {x['event']} ({x['call']} {x['args']}): TLC rejected clause {cl}",
                          {"kind": "suite-trace", "test": x["test"], "event": x["event"], "call": x["call"], "clause": cl})
