"""C07 - XML export is well-formed and round-trips the tree.

code -> spec: seeded trees over XML-legal names with prefixes bound through the API and values
drawn from the whole XML 1.0 character range (always including < > & " ' ]]> and non-ASCII) are
exported by both exporters; the output is parsed by two independent parsers (expat,
non-namespace-aware, which reports names and xmlns:* as written; lxml as a second opinion on
well-formedness); TraceXml.tla folds the declarations into in-scope bindings and judges the
correspondence with the tree (Xml!Corr mode "export", Xml!CorrEml), and from_xml(to_xml(t)) must
be the same tree up to whitespace.
"""
import os
import random

from harness.common import MachineryError, run_tlc, SPEC, parallel, judge_traces
from harness.world import Node
from harness import xmlobs
from harness.tables import walk

PID = "C07"
NAMES = ["a", "b", "item", "para", "el.dot", "el-dash", "el_us", "n2", "title", "eml", "relev\u00e9", "\u540d\u524d", "\u00e9"]      # XML-legal names are not ASCII only
PREFIXES = ["p", "q", "x-y", "ns1", "xsi", "s", "m\u00e9"]
URIS = ["urn:one", "urn:two", "http://example.org/ns#x", "http://u/?a=1&b=2", "urn:x:it's", "http://u/p?q='1'&r=(2)",
        "http://www.w3.org/2001/XMLSchema-instance", "https://eml.ecoinformatics.org/eml-2.2.0"]   # valid URI references (lxml refuses others)
SPECIALS = ["<", ">", "&", '"', "'", "]]>", "é", "漢字", "😀", "&amp;", "&#38;", "<!--", "-->", "<?x?>", "\\", "\x85", " ", "�", "a b",
            "{0}", "{id}", "}", "{", "{{x}}", "%s", "%(a)s", "$1", "\\1", "&quot;", "&apos;", "&nbsp;", "&copy;", "&#x26;", "&;", "&amp", "&lt", "%26", "<![CDATA[", "&#0;",
            "e\u0301", "\u212b", "\u1100\u1161", "a[b[0]]>c", "]]", "]]]]><![CDATA[>"]     # text that merely SPELLS a reference


def rvalue(rnd, attr=False):
    parts = []
    for _ in range(rnd.randint(0, 5)):
        k = rnd.random()
        if k < 0.5:
            parts.append(rnd.choice(SPECIALS))
        elif k < 0.8:
            parts.append("".join(rnd.choice("abcxyz 019") for _ in range(rnd.randint(1, 6))))
        else:
            cp = rnd.choice([rnd.randint(0x20, 0x7E), rnd.randint(0xA0, 0x24F), rnd.randint(0x4E00, 0x4E20), rnd.randint(0x1F600, 0x1F610),
                             9, 10])
            parts.append(chr(cp))
    s = "".join(parts)
    if attr:
        s = s.replace("\t", " ").replace("\n", " ")      # every XML parser normalises these in attribute values
    return s


def rtree(rnd, size, eml=False):
    root = Node("eml" if eml and rnd.random() < 0.5 else rnd.choice(NAMES))
    nodes = [root]
    if not eml:
        for _ in range(rnd.randint(0, 2)):
            root.add_namespace(rnd.choice(PREFIXES), rnd.choice(URIS))
    for _ in range(size - 1):
        p = rnd.choice(nodes)
        c = Node(rnd.choice(NAMES))
        if not eml and rnd.random() < 0.25:
            c.add_namespace(rnd.choice(PREFIXES), rnd.choice(URIS))
        p.add_child(c, index=rnd.randint(0, len(p.children)))
        nodes.append(c)
    for n in nodes:
        if not eml and rnd.random() < 0.15:
            n.add_namespace(rnd.choice(PREFIXES), rnd.choice(URIS))       # declared (or re-declared) after attach
    for n in nodes:
        if eml:
            if not n.children and rnd.random() < 0.7:
                n.content = rvalue(rnd)
        else:
            if rnd.random() < 0.5:
                n.content = rvalue(rnd)
            if n is not root and rnd.random() < 0.3:
                n.tail = rvalue(rnd)
            if n.nsmap and rnd.random() < 0.4:
                n.prefix = rnd.choice(list(n.nsmap))
            used = set()
            for _ in range(rnd.choice([0, 0, 1, 2])):
                if not n.nsmap:
                    break
                local = rnd.choice(["type", "ref", "n", "cl\u00e9"])
                if local in used:
                    continue
                used.add(local)
                n.add_extras(rnd.choice(list(n.nsmap)) + ":" + local, rvalue(rnd, attr=True))
        for _ in range(rnd.choice([0, 0, 1, 2, 3])):
            n.add_attribute(rnd.choice(["id", "scope", "system", "n", "a.b", "lang", "na\u00efve", "\u5c5e\u6027"]), rvalue(rnd, attr=True))
    if eml:
        for n in nodes:        # the documented workaround treats these spellings specially: outside the quantifier
            if n.content is not None and any(x in n.content for x in ("&amp;", "&lt;", "&gt;", "<para>", "</para>")):
                n.content = n.content.replace("&amp;", "and").replace("&lt;", "lt").replace("&gt;", "gt").replace("<para>", "para").replace("</para>", "para")
    return root


def wellformed_twice(text):
    from lxml import etree
    try:
        raw = xmlobs.parse_raw(text)
    except Exception:  # noqa: BLE001
        return None
    try:
        etree.fromstring(text.encode("utf-8"))
    except Exception:  # noqa: BLE001
        return None
    return raw


def obtain(root, rnd, seed):
    """The tree handed to an exporter need not be a freshly built root: a copy, a branch taken out with remove_child
    (its stale parent link stays), or a branch exported where it hangs are trees just as well."""
    how = seed % 4
    inner = [n for n in tables_walk(root) if n is not root]
    if how == 0 or not inner:
        return root, "built root"
    b = rnd.choice(inner)
    b.tail = None                        # the quantifier: no tail on the root of what is exported
    if how == 1:
        return b.copy(), "copy of a branch"
    if how == 2:
        b.parent.remove_child(b)
        return b, "branch detached with remove_child"
    return b, "branch exported in place"


def tables_walk(n):
    yield n
    for c in n.children:
        yield from tables_walk(c)


def w_general(seeds):
    from metapype.model import metapype_io
    evs = []
    for seed in seeds:
        Node.store.clear()
        rnd = random.Random(seed)
        root = rtree(rnd, 320 if seed % 100 == 99 else rnd.randint(1, 25))       # now and then a big tree (wide and deep parts)
        root, how = obtain(root, rnd, seed)
        t = xmlobs.tree_proj(root)
        desc = {"exporter": "metapype_io.to_xml", "seed": seed, "tree": how}
        try:
            text = metapype_io.to_xml(root)
        except Exception as e:  # noqa: BLE001
            evs.append({"op": "failed", "raised": type(e).__name__, "desc": desc})
            continue
        raw = wellformed_twice(text)
        evs.append({"op": "export", "wf": raw is not None, "raw": xmlobs.raw_split(raw) if raw else 0, "tree": t, "desc": desc})
        if raw is not None:
            try:
                back = metapype_io.from_xml(text, clean=False)
                evs.append({"op": "same", "t1": t, "t2": xmlobs.tree_proj(back), "desc": dict(desc, stage="from_xml(to_xml(t))")})
            except Exception as e:  # noqa: BLE001
                evs.append({"op": "failed", "raised": type(e).__name__, "desc": dict(desc, stage="re-import")})
    return evs


def w_eml(seeds):
    from metapype.eml import export
    evs = []
    for seed in seeds:
        Node.store.clear()
        rnd = random.Random(seed)
        root = rtree(rnd, 320 if seed % 100 == 99 else rnd.randint(1, 25), eml=True)
        root, how = obtain(root, rnd, seed)
        t = xmlobs.tree_proj(root)
        desc = {"exporter": "export.to_xml", "seed": seed, "tree": how}
        try:
            text = export.to_xml(root)
        except Exception as e:  # noqa: BLE001
            evs.append({"op": "failed", "raised": type(e).__name__, "desc": desc})
            continue
        raw = wellformed_twice(text)
        evs.append({"op": "export_eml", "wf": raw is not None, "raw": xmlobs.raw_split(raw) if raw else 0, "tree": t, "desc": desc})
    return evs


# element names an exporter might be tempted to treat specially, crossed with every special text: the text handling of an
# exporter may not depend on what the element is called
GRID_NAMES = NAMES + ["markdown", "literalLayout", "objectName", "attributeName", "literalCharacter", "metadata", "additionalMetadata", "references", "value",
                      "emphasis", "markup", "inline", "citetitle", "ulink", "description"]


def w_grid(idx):
    from metapype.eml import export
    from metapype.model import metapype_io
    evs = []
    for i in idx:
        name = GRID_NAMES[i // len(SPECIALS)]
        sp = SPECIALS[i % len(SPECIALS)]
        for eml in (False, True):
            if eml and any(x in sp for x in ("&amp;", "&lt;", "&gt;", "<para>", "</para>")):
                continue          # the documented workaround: outside the quantifier of the EML exporter
            Node.store.clear()
            root = Node("dataset" if eml else "r")
            x = Node(name, content=[sp, "a" + sp + "b", sp + sp][i % 3])
            x.add_attribute("id", sp.replace("\t", " ").replace("\n", " "))
            root.add_child(Node("title", content="t"))
            root.add_child(x)
            if not eml:
                x.tail = "t" + sp
            t = xmlobs.tree_proj(root)
            desc = {"exporter": "export.to_xml" if eml else "metapype_io.to_xml", "grid": [name, sp]}
            try:
                text = export.to_xml(root) if eml else metapype_io.to_xml(root)
            except Exception as e:  # noqa: BLE001
                evs.append({"op": "failed", "raised": type(e).__name__, "desc": desc})
                continue
            raw = wellformed_twice(text)
            evs.append({"op": "export_eml" if eml else "export", "wf": raw is not None, "raw": xmlobs.raw_split(raw) if raw else 0, "tree": t, "desc": desc})
    return evs


# EML-named parents whose children stand in an order OTHER than the one their rule lists (legal in repeatable choices, and what
# an exporter has to write anyway: "child order" is the order of the tree)
EML_ORDERS = [("coverage", ["temporalCoverage", "geographicCoverage", "taxonomicCoverage", "geographicCoverage"]), ("abstract", ["section", "para", "section", "markdown", "para"]),
              ("dataset", ["creator", "title", "contact", "title", "abstract", "pubDate", "creator"]), ("creator", ["positionName", "organizationName", "individualName", "address", "phone", "address"]),
              ("eml", ["additionalMetadata", "dataset", "access"]), ("para", ["emphasis", "ulink", "subscript", "emphasis"]), ("access", ["deny", "allow", "deny"]),
              ("methods", ["qualityControl", "sampling", "methodStep", "sampling"]), ("attribute", ["measurementScale", "attributeDefinition", "attributeName", "storageType"])]


def w_eml_orders(idx):
    from metapype.eml import export
    from metapype.model import metapype_io
    evs = []
    for i in idx:
        parent, kids = EML_ORDERS[i]
        for eml in (True, False):
            Node.store.clear()
            root = Node(parent)
            for k, nm in enumerate(kids):
                c = Node(nm, content=None if nm in ("section", "creator", "address", "dataset", "access", "additionalMetadata", "allow", "deny") else "t%d" % k)
                if c.content is None:
                    c.add_child(Node("title" if nm in ("section", "dataset") else "zzLeaf", content="x"))
                root.add_child(c)
            if i % 2:
                # nodes carrying the prefixes of the EML boilerplate (bound in their own maps) below a root that is NOT eml: what the
                # EML exporter writes must be well-formed all the same (it writes names without prefixes)
                for k, c in enumerate(root.children):
                    c.prefix = ["stmml", "xsi", "eml"][k % 3]
                    c.add_namespace(c.prefix, "urn:" + c.prefix)
            t = xmlobs.tree_proj(root)
            desc = {"exporter": "export.to_xml" if eml else "metapype_io.to_xml", "eml_order": [parent, kids], "boilerplate_prefixes_on_children": bool(i % 2)}
            try:
                text = export.to_xml(root) if eml else metapype_io.to_xml(root)
            except Exception as e:  # noqa: BLE001
                evs.append({"op": "failed", "raised": type(e).__name__, "desc": desc})
                continue
            raw = wellformed_twice(text)
            evs.append({"op": "export_eml" if eml else "export", "wf": raw is not None, "raw": xmlobs.raw_split(raw) if raw else 0, "tree": t, "desc": desc})
    return evs


def run(rep, tier, seed):
    n = 600 if tier == "quick" else 20000
    evs = [e for chunk in parallel(w_general, [seed * 4256233 + i for i in range(n)]) for e in chunk]
    evs += [e for chunk in parallel(w_eml, [seed * 86028121 + i for i in range(n)]) for e in chunk]
    evs += [e for chunk in parallel(w_grid, range(len(GRID_NAMES) * len(SPECIALS))) for e in chunk]
    evs += [e for chunk in parallel(w_eml_orders, range(len(EML_ORDERS))) for e in chunk]
    judged = [e for e in evs if e["op"] != "failed"]
    for e in evs:
        if e["op"] == "failed":
            rep.violation(f"{PID}:{e['desc']['exporter']}:raised:{e['raised']}", f"raised {e['raised']}; case {e['desc']}", {"kind": "export", "desc": e["desc"]})
    strip = lambda e: {k: v for k, v in e.items() if k != "desc"}  # noqa: E731
    rejects, rr = judge_traces([strip(e) for e in judged], PID, module="TraceXml", cfg="TraceValidate.cfg", label="export", timeout=3000)
    rep.cov["states"] += rr.distinct or 0
    rep.cov["transitions"] += rr.generated or 0
    rep.cov["traces_validated_against_impl"] = len(judged)
    for rj in rejects:
        e = judged[rj["event"] - 1]
        for cl in rj["clauses"]:
            rep.violation(f"{PID}:{e['desc']['exporter']}:{e['desc'].get('stage', 'export')}:{cl}", f"clause {cl}; case {e['desc']}",
                          {"kind": "export", "desc": e["desc"], "clause": cl})
    rep.notes.update(trees_per_exporter=n, events=len(evs), wellformed=sum(1 for e in judged if e.get("wf")))
    rep.sample({"seed": seed * 4256233, "exporter": "metapype_io.to_xml"})
    rep.cov["evaluations"] = len(evs)
    rep.cov["distinct_nontrivial"] = 2 * n
    rep.cov["rule"] = "seeded trees (1-25 nodes) with specials in content, tail, attribute, extras and namespace values; one export per exporter per tree"
    rep.assumptions += ["names are XML-legal, prefixes are bound in the node's namespace map (established through the API), no tail on the root",
                        "attribute values contain no TAB/LF/CR; for the EML exporter no node carries both text and children and content avoids the pre-escaped spellings",
                        "well-formedness is observed with two independent parsers (expat, lxml)"]
