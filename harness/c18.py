"""C18 - structural equality compares whole trees (decided on the MC_Copy exploration, see c12.py)."""
from harness.common import parallel
from harness.world import canon
from harness import c12


def run(rep, tier, seed):
    pid = "C18"
    T, E = c12.explore(rep, tier, pid)
    res = parallel(c12.w_c18, range(len(E)))
    nS = npairs = 0
    for n, outl, np_ in res:
        nS += n
        npairs += np_
        for key, det, replay in outl:
            rep.violation(f"{pid}:{key}", det[:500], replay)
    # every pair of small tree shapes (same pre-order label sequence, different nesting, ...)
    import os
    from harness.common import run_tlc, SPEC, MachineryError, workdir
    from harness.c09 import load_log_all
    wd = workdir(pid, "shapes", wipe=True)
    shapes = 0
    for cfg in (["MC_Shapes.cfg", "MC_Fields.cfg", "MC_FieldsMaps.cfg", "MC_FieldsTexts.cfg", "MC_FieldsPrefixes.cfg"] if tier == "quick" else ["MC_Shapes.cfg", "MC_Shapes6.cfg", "MC_Fields.cfg", "MC_FieldsMaps.cfg", "MC_FieldsTexts.cfg", "MC_FieldsPrefixes.cfg"]):
        out = os.path.join(wd, "shapes.out")
        r = run_tlc("MC_Shapes" if "Shapes" in cfg else "MC_Fields", cfg=os.path.join(SPEC, cfg), stdout_path=out, timeout=2400)
        if not r.ok or r.invariant_violated:
            raise MachineryError(f"{cfg}: the encoding / oracle is wrong:\n" + r.out[-1500:])
        rep.add_tlc(r, cfg + (" (all pairs of ordered labelled trees)" if "Shapes" in cfg else " (all pairs of nodes over adversarial field universes, alone and as only children)"))
        c12.G["SH"] = load_log_all(out)["E"]
        # look-alike texts for the "texts" focus: layout-like whitespace with and without line breaks, "" and None
        c12.G["SH_text_of"] = ({0: None, 1: "\n", 2: "", 3: "\n    ", 4: " ", 5: "\r\n\t", 6: "x"}.get if "Texts" in cfg else None)
        c12.G["SH_typed"] = ([{1: 2, 2: "2"}, {1: True, 2: "True"}, {1: "0.5", 2: 0.5}, {1: None, 2: "None"}, {1: 0, 2: "0"}] if "Maps" in cfg else None)
        os.remove(out)
        if not any(e["same"] for e in c12.G["SH"]) or all(e["same"] for e in c12.G["SH"]):
            raise MachineryError("vacuous shapes")
        realisations = [c12.G["SH_text_of"]]
        if "Texts" in cfg:
            # a second realisation of the seven text atoms: strings that are canonically EQUIVALENT (NFC / NFD spellings,
            # Angstrom sign / A-ring, Kelvin sign) yet different strings - equal means identical
            realisations.append({0: None, 1: "Jos\u00e9", 2: "", 3: "Jose\u0301", 4: "\u212b", 5: "\u00c5", 6: "A\u030a"}.get)
        for tof in realisations:
            c12.G["SH_text_of"] = tof
            for n, outl, np_ in parallel(c12.w_shapes, range(len(c12.G["SH"]))):
                shapes += n
                npairs += np_
                for key, det, replay in outl:
                    rep.violation(f"{pid}:{key}", det[:500], replay)
    rep.notes["shape_pairs_compared"] = shapes
    # large instances: deep chains / wide fans, compared with their copy before and after one edit at the far end (TLC: TreeEq)
    from harness.common import judge_traces
    from harness.world import World
    from harness.c12 import ALLF
    traces = []
    for shape, size in (("chain", 70), ("chain", 150), ("chain", 300), ("chain", 620), ("fan", 400)):
        kids = [[] for _ in range(size)]
        for i in range(2, size + 1):
            kids[(i - 2) if shape == "chain" else 0].append(i)
        w = World.build({"name": ["a" if i % 3 else "b" for i in range(size)], "kids": kids})
        tr = {"init": w.pi(ALLF), "events": [], "desc": {"shape": shape, "nodes": size}}
        ok, ret, exc = w.apply("copy", [1])
        tr["events"].append({"op": "copy", "args": [1], "ok": ok, "ret": ret if isinstance(ret, int) else 0, "post": w.pi(ALLF)})

        def ask(a, b):
            try:
                got = bool(Node_is_equal(w.n(a), w.n(b)))
            except Exception as e:  # noqa: BLE001
                got = "raised:" + type(e).__name__
            tr["events"].append({"op": "q", "q": "is_equal", "args": [a, b], "ret": got, "post": w.pi(ALLF)})
        from metapype.model.node import Node as _N
        Node_is_equal = _N.is_equal
        ask(1, size + 1)
        ask(size + 1, 1)
        w.n(2 * size).content = "edited at the far end"          # the last node of the copy
        tr["events"].append({"op": "resync", "args": [], "ok": True, "ret": 0, "post": w.pi(ALLF)})
        ask(1, size + 1)
        ask(size + 1, 1)
        traces.append(tr)
    rejects, rr = judge_traces([{"init": t["init"], "events": t["events"]} for t in traces], pid, label="large-pairs", timeout=3000)
    for rj in rejects:
        tr = traces[rj["trace"] - 1]
        rep.violation(f"{pid}:is_equal:large:{','.join(sorted(rj['clauses']))}", f"{tr['desc']}: event {tr['events'][rj['event'] - 1]}"[:400],
                      {"kind": "large-pair", "desc": tr["desc"], "event": rj["event"], "clauses": rj["clauses"]})
    rep.notes["large_pairs"] = [t["desc"] for t in traces]
    rep.notes["states_compared"] = nS
    rep.notes["ordered_pairs_compared"] = npairs
    e = E[len(E) // 2]
    rep.sample({"state": e["st"], "TreeEq_pairs": e["eq"]})
    rep.cov["evaluations"] = npairs
    rep.cov["distinct_nontrivial"] = nS
    rep.cov["rule"] = ("every state of MC_Copy (template, copy, after one/two edits anywhere) x every ordered pair of distinct nodes; "
                       "plus every pair of ordered trees with <= 4 nodes over two names (MC_Shapes; thorough: <= 6 nodes over one name) and every pair of nodes over adversarial per-field universes (MC_Fields: 82,944 pairs); TLC's TreeEq is the oracle; symmetry follows because both orders are compared with a symmetric operator")
    rep.cov["exhaustive"] = True
    rep.assumptions += ["is_equal is called on distinct node objects only (the statement speaks of distinct trees)"]
