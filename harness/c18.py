"""C18 - structural equality compares whole trees (decided on the MC_Copy exploration, see c12.py)."""
from harness.common import parallel
from harness.world import canon
from harness import c12


def run(rep, tier, seed):
    pid = "C18"
    T, E = c12.explore(rep, tier, pid)
    res = parallel(c12.w_c18, range(len(E)))
    nS = npairs = 0
    for n, outl, np_ in res:
        nS += n
        npairs += np_
        for key, det, replay in outl:
            rep.violation(f"{pid}:{key}", det[:500], replay)
    rep.notes["states_compared"] = nS
    rep.notes["ordered_pairs_compared"] = npairs
    e = E[len(E) // 2]
    rep.sample({"state": e["st"], "TreeEq_pairs": e["eq"]})
    rep.cov["evaluations"] = npairs
    rep.cov["distinct_nontrivial"] = nS
    rep.cov["rule"] = ("every state of MC_Copy (template, copy, after one/two edits anywhere) x every ordered pair of distinct nodes; "
                       "TLC's TreeEq is the oracle; symmetry follows because both orders are compared with a symmetric operator")
    rep.cov["exhaustive"] = True
    rep.assumptions += ["is_equal is called on distinct node objects only (the statement speaks of distinct trees)"]
