"""pytest plugin (harness side, nothing in /repo): records the repository's own tests as traces
for TraceForest.tla.  Enabled only when METAPYPE_VERIF_TRACE=1 and loaded with
`-p harness.recorder` (PYTHONPATH=/verif:<repo>/src).

Every TOP-LEVEL call (depth counter: nested internal calls are not logged) of a public Node
mutator, property setter, classmethod or of a module-level entry point (import / export /
validate / evaluate / prune / expand / normalize) becomes one event, logged in `finally` at the
call's return with the projection of every node created during the test.  Mutators whose
arguments respect the usage constraints are judged by their step function; entry points that do
not change the model are judged as stuttering (C11); prune / expand / imports by the registry
clauses (C14); anything else re-synchronises the trace on the logged state.
"""
import functools
import json
import os

ENABLED = os.environ.get("METAPYPE_VERIF_TRACE") == "1"
OUT = os.environ.get("METAPYPE_VERIF_TRACE_DIR", "/tmp/metapype-traces")

_state = {"depth": 0, "trace": None, "nodes": [], "idx": {}, "atoms": None, "n": 0}
FIELDS = ("name", "kids", "ns", "content", "tail", "prefix", "attrs", "extras", "store")


class _Atoms:
    def __init__(self):
        self.of = {}

    def atom(self, s):
        if s is None:
            return 0
        if not isinstance(s, str):
            s = ("<non-str>", repr(s))
        return self.of.setdefault(s, len(self.of) + 1)


def _ident(node):
    return _state["idx"].get(id(node), 0)


def _safe(s):
    return s if isinstance(s, str) and s.isascii() else "~" + str(abs(hash(str(s))) % 10 ** 8)


def _pi():
    from metapype.model.node import Node
    N = _state["nodes"]
    at = _state["atoms"]
    known = set(id(x) for x in N)
    return {"name": [_safe(x.name) for x in N],
            "kids": [[_ident(c) for c in x.children if id(c) in known] for x in N],
            "ns": [sorted([_safe(q), _safe(u)] for q, u in x.nsmap.items() if q is not None) if isinstance(x.nsmap, dict) else [] for x in N],
            "content": [at.atom(x.content) for x in N], "tail": [at.atom(x.tail) for x in N],
            "prefix": ["~" if x.prefix is None else _safe(x.prefix) for x in N],
            "attrs": [[[_safe(k), at.atom(v)] for k, v in x.attributes.items()] if isinstance(x.attributes, dict) else [] for x in N],
            "extras": [[[_safe(k), at.atom(v)] for k, v in x.extras.items()] if isinstance(x.extras, dict) else [] for x in N],
            "store": [i + 1 for i, x in enumerate(N) if Node.store.get(x.id) is x]}


def _listed(c):
    return any(c in p.children for p in _state["nodes"])


def _desc(n):
    out = [n]
    for c in n.children:
        out += _desc(c)
    return out


def _untracked_children():
    known = set(id(x) for x in _state["nodes"])
    return any(id(c) not in known for x in _state["nodes"] for c in x.children)


def _event(ev):
    tr = _state["trace"]
    if tr is None:
        return
    if _untracked_children():
        ev = {"op": "resync", "args": [], "ok": True, "ret": 0}
    ev["post"] = _pi()
    _state["n"] += 1
    tr["events"].append(ev)


def _mut(name, mk):
    """wrap a Node method; mk(self, args, kwargs, pre) -> (op, args) or None (=> resync)"""
    def deco(fn):
        @functools.wraps(fn)
        def wrapper(self, *a, **k):
            top = _state["depth"] == 0 and _state["trace"] is not None
            pre = None
            if top:
                try:
                    pre = mk(self, a, k)
                except Exception:  # noqa: BLE001
                    pre = None
            _state["depth"] += 1
            ok, ret = True, None
            try:
                ret = fn(self, *a, **k)
                return ret
            except BaseException:
                ok = False
                raise
            finally:
                _state["depth"] -= 1
                if top:
                    if pre is None:
                        _event({"op": "resync", "args": [], "ok": ok, "ret": 0, "call": name})
                    else:
                        op, args = pre
                        r = ret if isinstance(ret, int) and not isinstance(ret, bool) else 0
                        if op == "copy" and ok:
                            from harness.recorder import _track_tree
                            r = _track_tree(ret)
                        _event({"op": op, "args": args, "ok": ok, "ret": r, "call": name})
        return wrapper
    return deco


def _track(node):
    if id(node) not in _state["idx"]:
        _state["nodes"].append(node)
        _state["idx"][id(node)] = len(_state["nodes"])
    return _state["idx"][id(node)]


def _track_tree(root):
    first = _track(root)
    for c in root.children:
        _track_tree(c)
    return first


def _entry(modname, fname, kind):
    """wrap a module-level entry point: kind in readonly / import / discard / resync"""
    import importlib
    mod = importlib.import_module(modname)
    fn = getattr(mod, fname)

    @functools.wraps(fn)
    def wrapper(*a, **k):
        top = _state["depth"] == 0 and _state["trace"] is not None
        size_before = len(_state["nodes"])
        root = _ident(a[0]) if a and hasattr(a[0], "children") else 0
        _state["depth"] += 1
        ok, ret = True, None
        try:
            ret = fn(*a, **k)
            return ret
        except BaseException:
            ok = False
            raise
        finally:
            _state["depth"] -= 1
            if top:
                call = f"{modname.split('.')[-1]}.{fname}"
                if kind == "readonly" and root:
                    _event({"op": "readonly", "fn": f"{call}#{_state['n']}", "res": 0, "args": [], "ok": True, "ret": 0, "call": call})
                elif kind == "discard" and root and ok:
                    for x in _desc(a[0]):
                        _track(x)
                    _event({"op": "discarding", "args": [root, fname], "ok": ok, "ret": 0, "call": call})
                elif kind == "import" and ok and hasattr(ret, "children"):
                    first = size_before + 1
                    if len(_state["nodes"]) >= first and _state["nodes"][first - 1] is ret:
                        _event({"op": "import_doc", "args": [first], "ok": True, "ret": len(_state["nodes"]) - size_before, "call": call})
                    else:
                        _event({"op": "resync", "args": [], "ok": ok, "ret": 0, "call": call})
                else:
                    _event({"op": "resync", "args": [], "ok": ok, "ret": 0, "call": call})
    setattr(mod, fname, wrapper)


def install():
    from metapype.model.node import Node, Shift
    at = lambda v: _state["atoms"].atom(v)  # noqa: E731
    orig_init = Node.__init__

    @functools.wraps(orig_init)
    def init(self, *a, **k):
        top = _state["depth"] == 0 and _state["trace"] is not None
        _state["depth"] += 1
        try:
            orig_init(self, *a, **k)
        finally:
            _state["depth"] -= 1
        if _state["trace"] is not None:
            _track(self)
            if top:
                plain = self.content is None and self.parent is None and len(a) + len(k) == 1
                _event({"op": "create", "args": [_safe(self.name)], "ok": True, "ret": _ident(self), "call": "Node"} if plain
                       else {"op": "resync", "args": [], "ok": True, "ret": 0, "call": "Node(...)"})
    Node.__init__ = init

    def can_attach(p, c):
        return _ident(p) and _ident(c) and not _listed(c) and p not in _desc(c)

    def mk_add(self, a, k):
        c = a[0] if a else k["child"]
        i = a[1] if len(a) > 1 else k.get("index")
        if not can_attach(self, c) or (i is not None and not (isinstance(i, int) and 0 <= i <= len(self.children))):
            return None
        return "add_child", [_ident(self), _ident(c), -1 if i is None else i]

    def mk_replace(self, a, k):
        o = a[0] if a else k["old_child"]
        n = a[1] if len(a) > 1 else k["new_child"]
        d = a[2] if len(a) > 2 else k.get("delete_old", True)
        if not (_ident(o) and can_attach(self, n)) or o is n:
            return None
        if d and o in self.children and not all(Node.store.get(x.id) is x for x in _desc(o)):
            return None
        return "replace_child", [_ident(self), _ident(o), _ident(n), bool(d)]

    def mk_shift(self, a, k):
        c = a[0] if a else k["child"]
        d = a[1] if len(a) > 1 else k["direction"]
        s = a[2] if len(a) > 2 else k.get("sib", True)
        if not _ident(c) or d not in (Shift.LEFT, Shift.RIGHT):
            return None
        return "shift", [_ident(self), _ident(c), "R" if d == Shift.RIGHT else "L", bool(s)]

    wraps = {
        "add_child": mk_add,
        "remove_child": lambda s, a, k: ("remove_child", [_ident(s), _ident(a[0])]) if _ident(a[0]) else None,
        "remove_children": lambda s, a, k: ("remove_children", [_ident(s)]),
        "replace_child": mk_replace,
        "shift": mk_shift,
        "add_namespace": lambda s, a, k: ("add_namespace", [_ident(s), _safe(a[0]), _safe(a[1])]) if len(a) == 2 and a[0] is not None else None,
        "remove_namespace": lambda s, a, k: ("remove_namespace", [_ident(s), _safe(a[0])]) if len(a) == 1 else None,
        "copy": lambda s, a, k: ("copy", [_ident(s)]) if all(_ident(x) for x in _desc(s)) else None,
        "add_attribute": lambda s, a, k: ("add_attribute", [_ident(s), _safe(a[0]), at(a[1])]),
        "remove_attribute": lambda s, a, k: ("remove_attribute", [_ident(s), _safe(a[0])]),
        "add_extras": lambda s, a, k: ("add_extras", [_ident(s), _safe(a[0]), at(a[1])]),
        "set_nsmap": lambda s, a, k: None,
    }
    for name, mk in wraps.items():
        setattr(Node, name, _mut(name, mk)(getattr(Node, name)))
    # property setters
    def wrap_prop(pname, mk):
        prop = getattr(Node, pname)
        setter = _mut(pname + ".setter", mk)(prop.fset)
        setattr(Node, pname, property(prop.fget, setter))
    wrap_prop("content", lambda s, a, k: ("set_content", [_ident(s), at(None if a[0] is None else str(a[0]))]))
    wrap_prop("tail", lambda s, a, k: ("set_tail", [_ident(s), at(a[0])]))
    wrap_prop("name", lambda s, a, k: ("set_name", [_ident(s), _safe(a[0])]))
    wrap_prop("prefix", lambda s, a, k: ("set_prefix", [_ident(s), "~" if a[0] is None else _safe(a[0])]))
    for pname in ("attributes", "nsmap", "children", "extras", "parent"):
        wrap_prop(pname, lambda s, a, k: None)
    # classmethods
    for cname, mk in (("delete_node_instance", None), ("fix_nsmap", None)):
        orig = getattr(Node, cname).__func__

        def make(orig, cname):
            @functools.wraps(orig)
            def w(cls, *a, **k):
                top = _state["depth"] == 0 and _state["trace"] is not None
                pre = None
                if top and cname == "delete_node_instance":
                    nid = a[0] if a else k["id"]
                    ch = a[1] if len(a) > 1 else k.get("children", True)
                    n = Node.store.get(nid)
                    if n is not None and _ident(n) and (not ch or all(Node.store.get(x.id) is x for x in _desc(n))):
                        pre = ("delete", [_ident(n), bool(ch)])
                _state["depth"] += 1
                ok = True
                try:
                    return orig(cls, *a, **k)
                except BaseException:
                    ok = False
                    raise
                finally:
                    _state["depth"] -= 1
                    if top:
                        _event({"op": pre[0], "args": pre[1], "ok": ok, "ret": 0, "call": cname} if pre and ok
                               else {"op": "resync", "args": [], "ok": ok, "ret": 0, "call": cname})
            return w
        setattr(Node, cname, classmethod(make(orig, cname)))
    # read-only Node methods at top level are stuttering steps too
    for q in ("find_child", "find_all_children", "find_descendant", "find_all_descendants", "find_single_node_by_path", "find_all_nodes_by_path",
              "get_ancestry", "child_index", "attribute_value", "list_attributes"):
        orig = getattr(Node, q)

        def makeq(orig, q):
            @functools.wraps(orig)
            def w(self, *a, **k):
                top = _state["depth"] == 0 and _state["trace"] is not None
                _state["depth"] += 1
                try:
                    return orig(self, *a, **k)
                finally:
                    _state["depth"] -= 1
                    if top and _ident(self):
                        _event({"op": "readonly", "fn": f"Node.{q}#{_state['n']}", "res": 0, "args": [], "ok": True, "ret": 0, "call": "Node." + q})
            return w
        setattr(Node, q, makeq(orig, q))
    for modname, fname, kind in (
            ("metapype.model.metapype_io", "from_xml", "import"), ("metapype.model.metapype_io", "from_json", "resync"),
            ("metapype.model.metapype_io", "to_json", "readonly"), ("metapype.model.metapype_io", "to_xml", "readonly"),
            ("metapype.model.metapype_io", "graph", "readonly"), ("metapype.model.mp_io", "to_json", "readonly"),
            ("metapype.model.mp_io", "graph", "readonly"), ("metapype.model.mp_io", "from_json", "resync"), ("metapype.model.mp_io", "from_xml", "resync"),
            ("metapype.eml.validate", "node", "readonly"), ("metapype.eml.validate", "tree", "readonly"), ("metapype.eml.validate", "prune", "discard"),
            ("metapype.eml.evaluate", "node", "readonly"), ("metapype.eml.evaluate", "tree", "readonly"),
            ("metapype.eml.references", "expand", "discard"), ("metapype.eml.export", "to_xml", "readonly")):
        _entry(modname, fname, kind)


if ENABLED:
    install()

    def pytest_runtest_setup(item):
        _state.update(depth=0, nodes=[], idx={}, atoms=_Atoms(), n=0)
        _state["trace"] = {"test": item.nodeid, "init": None, "events": []}
        _state["trace"]["init"] = _pi()

    def pytest_runtest_teardown(item, nextitem):
        tr = _state["trace"]
        _state["trace"] = None
        if tr is not None and tr["events"]:
            os.makedirs(OUT, exist_ok=True)
            safe = "".join(c if c.isalnum() else "_" for c in item.nodeid)[-120:]
            with open(os.path.join(OUT, safe + ".json"), "w") as f:
                json.dump(tr, f)
