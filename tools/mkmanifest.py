#!/venv/bin/python
"""Regenerates MANIFEST.json from the table below (keeps it schema-valid at all times)."""
import json, os, sys
V = os.path.dirname(os.path.dirname(os.path.abspath(__file__)))
ALL = [f"C{i:02d}" for i in range(1, 21)]

MC = "model_checking"
CHECKS = {
 "C01": dict(
   text="For every rule of rules.json (generated into the spec at check time) TLC builds the product automaton of the strict and lenient reading of the children section by Brzozowski derivatives (MC_Dfa) and cross-checks it against an independent declarative membership definition on every word up to a per-rule budget (MC_Words; ~1e6 words in thorough). From TLC's graph the harness derives a W-method suite (complete for validators with up to k extra states; k=0/1 quick, 1/2 thorough), all short words and accepted random walks; every word is a path in TLC's graph whose end state carries the verdict and is run through validate.node in both modes: ACCEPT => no error; REJECT => only child-not-allowed/min/max errors; UNSPEC not judged. The forest walks are repeated with hostile decorations that must not matter: children constructed with one explicit id, carrying a prefix, absent from the registry; foreign names with format-string metacharacters.",
   note="Trusted: TLC, the JSON->TLA+ generator (verbatim encoding), realisation of a word as a parent with valid content/attributes. FOREIGN stands for all names outside the rule. W-method completeness is relative to k.",
   technique="TLA+ regex semantics (Regex.tla, RuleJson.tla) explored by TLC into per-rule automata; W-method conformance suite from TLC's graph replayed through validate.node",
   design="4/C01"),
 "C02": dict(
   text="TLC evaluates the decision table of ContentClass.tla (12 content kinds + enumeration, three-valued) for every rule x ~50 abstract content classes (numeric classes split into boundary buckets at +-180, +-90, 0) x hasKids x enum dimension; every combination is concretised by constructive generators (12 strings per combination quick, 400 thorough; boundary values exact) and validated in both modes: ACCEPT/REJECT must match, both modes agree, nothing but rule errors, collecting mode never raises. Two lexical layers enumerate ALL short strings over tiny alphabets with strict / generous grammars (Lexical.tla: int, float and the ranged kinds over {-,+,0,1,8,9,.,e}; LexDate.tla: year-or-date and time over {+,-,0,1,2,9,:,T}). URIs: class URI_FULL (userinfo, port, IP literals, pct-encoding, query, fragment) must be accepted.",
   note="Which strings belong to a class is decided by the generators, not by the spec (DESIGN section 5). Lenient spellings, blank text, NaN/inf for unranged float, lone surrogates are UNSPEC.",
   technique="TLA+ decision table (ContentClass.tla) enumerated by TLC (MC_Content); each table row concretised and replayed through validate.node",
   design="4/C02"),
 "C03": dict(
   text="MC_Attr: TLC explores AddAttribute/RemoveAttribute on one node for every rule, reaching every assignment over {absent, each listed value, one unlisted value} per declared attribute x {no foreign, one foreign} (complete: ~1.1k states) and states the exact set of violated constraints. Every state is realised on a node with valid content/children (seeded insertion order with add/remove noise); collecting mode must return exactly that multiset of (code, attribute) and raise nothing; fail-fast raises a rule error iff the set is non-empty; is_required_attribute / allowed_attribute_values must equal the table and raise for a foreign name. The model's single foreign name is realised with adversarial look-alikes of every declared name (prefixed, padded, case-changed, truncated, doubled, empty).",
   note="Oracle: the declaration in rules.json as generated into RuleTable.tla (not rule.rules_dict). One unlisted value and one foreign name stand for all.",
   technique="TLA+ state machine over attribute assignments (MC_Attr) explored exhaustively by TLC; every state replayed through validate.node",
   design="4/C03"),
 "C04": dict(
   text="Trace validation: every validate.node call on every node and validate.tree on the root, in both modes, of (b) 1-3 adversarial mutations of the EML fixture and of rule-guided generated trees (16 named operators incl. every content class, hostile Unicode, non-string attribute values), (c) random trees over known/unknown names, (d) chains to depth 100 and (e) a systematic sweep of every known element x ~70 hostile contents x attributes, is recorded under a watchdog and judged by TraceValidate.tla, whose Validate action has only the outcomes 'succeeds' / 'rule error' (OutcomeOK: no other exception, collecting never raises, entry shape, list empty iff fail-fast succeeds). Error codes and exception kinds exercised are counted in the evidence. The sweep also plants hostile attribute names (colons, empties, controls, format metacharacters, look-alikes of declared names) and typed templates perturbed with characters on which Python's predicates and parsers disagree. Shallow trees with 1,100 / 2,500 (thorough 6,000) children of 12 parent kinds; a share of the trees is validated with the registry emptied or with all nodes sharing one id.",
   note="Inputs are the point here; the judge is small. 130k validations quick, millions thorough. Lone surrogates and nesting beyond 100 are outside the quantifier.",
   technique="trace validation: recorded validation outcomes judged by a TLA+ trace specification (TraceValidate.tla) with TLC",
   design="4/C04"),
 "C05": dict(
   text="Trace validation with a relational judge: for each tree the harness records the node table, the observed per-node outcomes (validate.node, both modes) and the observed validate.tree outcomes; TLC (TraceValidate.tla, TreeErrs/Visible) requires the tree's error list to be the document-order concatenation of the lists of the nodes not below a metadata element and fail-fast success to be the conjunction. Inputs: every single site x 4 defect kinds and (sampled / all) pairs of sites on a ~40-node generated valid tree, plus seeded 0-4 mutations of generated trees and the fixture, always with arbitrary (also invalid, also two) foreign subtrees under additionalMetadata/metadata. A quarter of the trees is validated with the registry emptied after building, a quarter with all nodes sharing one id; 84 deterministic look-alike twin trees (two nodes of one rule differing only in the value of an enumerated attribute, both orders).",
   note="Per-node observations are taken from the same implementation; only their relation to the tree result is judged here (C04 judges the outcomes themselves).",
   technique="trace validation with a relational TLA+ judge (TraceValidate.tla) evaluated by TLC on recorded tree validations",
   design="4/C05"),
 "C06": dict(
   text="Codec.tla specifies the 8-slot layout (slot order included), the legacy 4-slot layout, the converter's Upgrade and the inverse maps; MC_Codec checks on all 758 trees of <= 3 nodes over 8 node variants that the format loses nothing (De(Ser(t)) = t, stable re-serialisation, legacy view, Upgrade(SerL(t)) loads as the legacy view). spec->code: each small tree is built, saved by both codecs and the converter (compiled from utils/convert.py), and the emitted text compared slot by slot and key-order-exactly with TLC's documents, then loaded. code->spec: seeded trees of 1-40 nodes with arbitrary Unicode (lone surrogates, control characters, empty strings) in every text field; save/load/re-save, legacy save/load, upgrade/load events judged by TraceCodec.tla (layout, loaded tree, parent links, registration, identical text). Explicit ids include UUID spellings, numbers, null-like and blank strings.",
   note="Text identity is decided through interned atoms. The precondition (child prefixes include the parent's) is established through the API. Default (None-keyed) namespaces are outside the quantifier.",
   technique="TLA+ codec specification model-checked by TLC (MC_Codec) and replayed; recorded codec events trace-validated by TLC (TraceCodec.tla)",
   design="4/C06"),
 "C07": dict(
   text="Xml.tla defines the correspondence between a raw XML document (names and xmlns:* attributes as written, as reported by a non-namespace-aware parser) and a tree: InScope folds the declarations down the document (recomputed in TLA+, independently of lxml), qualified attributes are compared by expanded name, text modulo XML-whitespace strip with blank == absent. Seeded trees (1-25 nodes, prefixes bound through the API incl. re-declaration below, specials < > & \" ' ]]> entity spellings, comment/PI look-alikes, non-ASCII in content, tail, attribute, extras values; valid namespace URIs with & and quotes) are exported by both exporters; the output must be accepted by two independent parsers and is judged by TraceXml.tla (Corr mode export / CorrEml); from_xml(to_xml(t)) must be the same tree up to whitespace. Trees are exported as built roots, as copies of branches, as branches detached with remove_child and as branches in place. Values include text that merely spells references (&quot; &apos; &nbsp; &#x26; ...).",
   note="Parsers are observation devices (expat for what the text denotes, lxml as second opinion on well-formedness). Default namespaces and invalid URIs as namespace names are outside the quantifier.",
   technique="trace validation: exporter outputs parsed independently and judged by a TLA+ document/tree correspondence (Xml.tla, TraceXml.tla) with TLC",
   design="4/C07"),
 "C08": dict(
   text="Same correspondence relation in the import direction, with Text!Clean as the whitespace policy (design-checked idempotent and word-preserving by MC_Text on all strings <= 6). Exhaustive: every string <= 4 (thorough 5) over {SP,TAB,LF,NBSP,a,b} as content and as tail of a literal and a non-literal element in raw / clean / collapse mode. Seeded: documents with prefixed declarations incl. re-declaration in subtrees (two prefixes bound to one URI too), xml:-prefixed and other qualified attributes, entities, CDATA, comments strictly between tags, XML declaration and leading comment, all four clean/collapse combinations and several literals tuples. Every import is judged by TraceXml.tla; the tree is exported and imported again and must be the same tree up to the whitespace policy. Names include hyphens, dots, underscores and digits (elements, attributes, qualified attributes, prefixes).",
   note="UNSPEC: NBSP adjacent to non-blank text, Unicode whitespace beyond SP/TAB/LF/NBSP, text adjacent to comments, default namespaces.",
   technique="trace validation: imports judged by the TLA+ correspondence relation (Xml.tla + Text.tla) with TLC; exhaustive short texts, seeded documents",
   design="4/C08"),
 "C09": dict(
   text="TLC explores every forest over 4 nodes x 2 names with every edit (append, insert at every index, remove, clear, replace, both shift modes and directions, and the failing variants) and checks the spec's own invariants/action properties; the harness replays every labelled transition, every state's full query table, all paths to depth 3/4 and seeded walks on real Node objects, and TraceForest.tla judges long random histories over 12-20 nodes recorded from the real API. Exhaustive within the bound; beyond it, sampled. replace_child(x, x) (a node replaced by itself stays attached to one parent) is part of the model. Every second query state is also built from nodes constructed with one explicit id.",
   note="Trusted: TLC, the projection pi (public properties only), Python list semantics for building states. Assumes the usage constraint of the statement (one parent at a time, no cycles, in-range insert index). Stored parent links of unlisted nodes are not judged.",
   technique="TLA+ spec (Metapype.tla/Forest.tla) model-checked by TLC; logged transition relation replayed into the code; recorded histories trace-validated by TLC (TraceForest.tla)",
   design="4/C09"),
 "C10": dict(
   text="MC_Table: TLC evaluates the four clauses as constant expressions over the tables generated from the working tree - complete enumeration of every element-name map entry, every rule (well-formedness per RuleJson.tla), a least-fixpoint satisfiability computation with a witness (child word from earlier layers + accepting content class) for every known element, and every child name of every reachable rule. Every witness tree is built and must pass validate.tree in both modes; get_rule must construct for every name and expose the file's sections; rules_dict must equal the file.",
   note="Three unknown child names (software, protocol under emlRule; studyAreaDescription under relatedProjectRule) are recorded known findings; acknowledgements was fixed.",
   technique="TLA+ constant-level clauses over the generated rule table evaluated by TLC (MC_Table); witnesses replayed through validate.tree",
   design="4/C10"),
 "C11": dict(
   text="Every read-only entry point (31: both validators in both modes, both evaluators, 4 JSON/dict serialisers, both XML exporters, both graph renderers, all search queries, insertion index, allowed-child, structural comparison, str/repr/object, attribute queries) is a stuttering action of the spec. After each call the full projection (every field of every node, order, namespace maps, registry) is logged and TraceForest.tla requires post = pre field by field, and - with a memo state variable - that equal calls give equal results since the last mutating call. Orders: a baseline pass, then every ordered pair (enumerated by TLC, MC_ReadOnly), then seeded sequences of 24 on larger trees; trees: EML fixture, generated valid trees, trees with & < > and pre-escaped entities, trees with namespaces/prefixes/extras/tails. Tree kinds include invalid trees (adversarial mutations; attributes stripped from half of the nodes). Eight whole-tree operations are also applied to an inner node; the stored parent pointers are logged and must not move across a read-only call.",
   note="Trusted: pi reads public properties only; an exception is treated as the call's result here. Results are compared as interned strings with nodes rendered by abstract id.",
   technique="trace validation: stuttering + memo clauses of TraceForest.tla judged by TLC on recorded full-state traces; op orders enumerated by TLC",
   design="4/C11"),
 "C12": dict(
   text="TLC explores MC_Copy: 3 templates (every field populated, namespace dicts aliased between parents and children as the API creates them) x copy of any subtree x every single edit (thorough: every pair of edits) on any node of either tree - one mutator per mutable container a node owns; CopyOK (equal, disjoint, fresh registered ids, unlisted root) is an action property of the spec. Every transition is replayed after its genuine history and the full projection of both trees is compared, so any container shared between copy and original is written through by some explored edit and shows up in the other tree. Every copy transition is replayed a second time on a template whose nodes were constructed with repeated explicit ids (equal copy, fresh pairwise distinct registered ids). Chains of 70/150/300 nodes, a fan of 400 and a comb are copied at several nodes and judged by TLC.",
   note="Trusted: TLC, projection pi, interning of text. Small-scope: trees of <= 4 nodes; values from a 2-element universe per field.",
   technique="TLA+ spec model-checked by TLC (MC_Copy); every logged transition replayed into the code with full two-tree projection compare",
   design="4/C12"),
 "C13": dict(
   text="Frame and NsEffect are action properties of the spec, model-checked over all attach/detach/declare/re-declare/remove histories on 3 nodes (thorough: 2 prefixes, and 4 nodes without logging). Because dict aliasing is hidden state created by history, TLC's graph is replayed along paths (all paths to depth 4) and by a product exploration that visits every reachable (abstract state x alias partition) pair of the implementation with every enabled operation; long random histories over 6-10 nodes / 3 prefixes are trace-validated by TLC. The small instance is replayed once more with every node's own prefix field set to the explored prefix.",
   note="Trusted: TLC, pi, id() for alias partitions. What attach does to maps strictly below the attached child is modelled for generation, not judged (the statement is silent).",
   technique="TLA+ action properties checked by TLC; path replay + product exploration of TLC's graph against the code; trace validation of random histories",
   design="4/C13"),
 "C14": dict(
   text="RegistryStep (the registry changes only by create/copy/import adding exactly the new ids and delete/replace-with-delete removing exactly the named subtree) is an action property checked by TLC over every history of create, import (xml/json), copy, attach, detach, replace(+-delete), delete(+-children) with <= 4 (thorough 5) ids; every transition is replayed after the genuine history of its source state, comparing registry membership by object identity, returned ids and id uniqueness; after every transition an id-only observer drops every node reference, collects garbage and looks every registered id up again. prune / expand / import on the EML fixture with planted junk are trace-validated (live nodes registered, discarded nodes gone, unrelated ids untouched); 20k-200k fresh ids checked for collisions. Imports cover XML, JSON, JSON with null ids and the legacy JSON codec; replace_child(x, x) is part of the model. Prune of a parentless root with an unknown name (which prune reports as removed) must unregister the whole tree.",
   note="Trusted: TLC, pi. Preconditions of the statement are enabling conditions of the spec (no id reuse, delete only registered ids).",
   technique="TLA+ action property checked by TLC (MC_Reg); transitions replayed after genuine histories; TraceForest.tla judges prune/expand/import events",
   design="4/C14"),
 "C15": dict(
   text="TLC enumerates planting plans (3 skeletons x <=1/2 plantings (site, kind in unknown child / misplaced known child / invalid content / invalid attribute / starved required child) x strict); each is realised, pruned and judged relationally by TraceEml.tla PruneClauses on the logged pre/post projection, returned list, registry and observed validate.node outcomes: never raises; no offending node remains outside metadata content; strict: every remaining non-root node validates; kept nodes untouched and in order; whole subtrees removed; every cut reported once with a string; registry = before minus removed; only offending (or, strict, observed-invalid) nodes removed; second prune idle. Seeded 1-5 plantings at arbitrary depth on the EML fixture and on generated valid/invalid trees go through the same judge. Planting kinds include a childless child whose name the parent's rule lists although it is not a known element (skeletons eml, relatedProject). Skeletons include a tree rooted at the metadata element itself.",
   note="Known / AllowedIn come from the rule table generated from the working tree. In strict mode a node cut from a parent that is itself cut later is legitimately listed (TLC taught us: first version of the clause was too strict).",
   technique="plan enumeration by TLC (MC_Plans) + relational TLA+ judge (TraceEml.tla) evaluated by TLC on recorded prune calls",
   design="4/C15"),
 "C16": dict(
   text="TLC enumerates plans: sequences of <=3 (thorough 4) party elements, each a definition or a reference to a same-rule definition placed before or after it, with/without trailing role, x one dangling reference / duplicated id at every position or none. Each is realised on a dataset skeleton, expanded and judged by TraceEml.tla ExpandClauses: every references node replaced in place by structurally equal fresh copies (CrossEq), sources and all other nodes unchanged, none left, registry exact, validity preserved (observed before/after), copies independent (every copy edited afterwards in every container, old nodes compared), and on a fault ValueError with the full projection unchanged. The EML fixture with seeded extra references and faults goes through the same judge. Every plan is also run on a tree carrying a default namespace (key None) next to a prefixed one, as after from_xml. Fault-free plans are also run inside an eml document holding one more reference below additionalMetadata/metadata.",
   note="The precondition of the statement (same rule, referenced element reference-free) is enforced by the plan generator; the spec itself decides when expansion must fail.",
   technique="plan enumeration by TLC (MC_Plans) + relational TLA+ judge (TraceEml.tla) evaluated by TLC on recorded expand calls",
   design="4/C16"),
 "C17": dict(
   text="MC_Insert: for every rule x every existing child sequence over the rule's names up to a budget x every candidate, TLC computes the set Acceptable of indexes the statement allows (in bounds, keeps declared order, restores validity when some position does) and checks the bounded theorem RankIndex in Acceptable for the transcribed documented algorithm on the real table. The code's child_insert_index must answer inside TLC's set (ChildNotAllowedError exactly for foreign names); is_allowed_child is compared with 'occurs in some valid sequence'; long accepted sequences with one child removed are judged by TLC (TraceInsert.tla). Every case with two or more children is also run with all siblings constructed with one explicit id. The model's foreign candidate is realised by names with format-string metacharacters.",
   note="Precondition: each rule names a child at most once (others skipped and listed). Membership via the derivative automaton, cross-checked against the declarative definition in C01's MC_Words.",
   technique="TLA+ Acceptable/RankIndex model-checked by TLC on the real rule table; TLC's acceptable sets replayed against the code; trace validation for long sequences",
   design="4/C17"),
 "C18": dict(
   text="TreeEq (name, content, tail, prefix, namespace map, attributes, extras, children recursively in order) is evaluated by TLC on every ordered pair of distinct nodes in every state of MC_Copy (templates, copies, and every single/double edit anywhere - i.e. pairs differing in exactly one field of one node at any depth and child position, plus unrelated subtrees); Node.is_equal is compared on all those pairs in both argument orders. MC_Shapes enumerates every pair of ordered labelled trees with <= 4 nodes over two names (thorough: <= 6 nodes over one name) from their pre-order depth sequences - trees with equal label sequences and different nesting included - with the same comparison on every node pair. Deep chains (70/150/300) and a fan of 400 are compared with their copies before and after one edit at the far end (TLC: TreeEq); MC_Fields also enumerates the three mappings filled in different orders.",
   note="Trusted: TLC, pi. Identical-object calls are not made.",
   technique="TLA+ operator TreeEq evaluated by TLC on the MC_Copy state graph; compared with the code on every ordered node pair",
   design="4/C18"),
 "C19": dict(
   text="Evaluate.tla states the documented recommendations as, per node, the set of acceptable warning sets over a flat tree projection (names, child lists, word counts, truthiness, ORCID flag), with the UNSPEC corners as several acceptable sets. MC_EvalPlans (TLC) enumerates 15,692 dataset profiles (x a complete / minimal / no dataSource nested in the methods) - every threshold at -1/0/+1, every optional part present/absent, abstract text in own content / para / markdown / split / below sections / paras with only inline children, keywords over 1-2 sets, party ids none / other directory / ORCID / both. Each profile is realised as a tree that passes validate.tree (discarded and counted otherwise), evaluated into a pre-filled list and judged node by node by TraceEval.tla: no exception, earlier entries intact, (EvaluationWarning, str, node) triples, exactly an acceptable set at every node. Random rule-guided valid trees go through the same judge; mutated known-name trees, parentless nodes and text-less paras are judged for totality (evaluate.tree and evaluate.node). Every fourth profile is built from words that mean something to str.format, %-formatting, templates and XML. A fifth of the profiles is evaluated with all nodes sharing one id, another fifth with the registry emptied.",
   note="Word counts and truthiness are observed by the harness projection (Python split); title words separated by spaces. Several physical/size/dataFormat children not generated.",
   technique="profile enumeration by TLC (MC_EvalPlans) + TLA+ recommendation semantics (Evaluate.tla) judging recorded evaluations with TLC (TraceEval.tla)",
   design="4/C19"),
 "C20": dict(
   text="Text.tla defines Words, NormOK (no NBSP, no leading/trailing space, no run of spaces, same words in order), XPath NormalizeSpace and the protected-element rule; MC_Text checks on all 55,987 strings <= 6 over {SP,TAB,LF,NBSP,a,b} that the spec's own normaliser satisfies NormOK and is idempotent. Every string <= 5 (thorough 6) plus seeded longer ones is run through normalize() and the (input, output, output-of-output) triple judged by TraceText.tla; seeded XML documents (mixed content, protected elements at several depths, plain and xsi-prefixed attributes, SP/TAB/LF/NBSP in text, tails and attribute values) are normalised twice, input and output parsed by an independent parser and judged: same elements, attribute names and order, values/text space-normalised except below protected elements (NBSP replaced only), idempotent, well-formed. Documents carry XML declarations, internal DTD subsets with general entities used in text and attribute values, character references (also of U+00A0), CDATA sections, comments and processing instructions. Text includes letters that Unicode normalisation forms, case mapping or width folding would change.",
   note="Well-formedness and 'what the text denotes' are observed with expat; Unicode whitespace beyond SP/TAB/LF/CR/NBSP is outside the quantifier.",
   technique="TLA+ whitespace semantics model-checked by TLC (MC_Text); recorded normalize() calls trace-validated by TLC (TraceText.tla)",
   design="4/C20"),
}
NOT_YET = "not claimed"

def main():
    checks = []
    for pid in ALL:
        if pid not in CHECKS:
            continue
        c = CHECKS[pid]
        checks.append({
            "property_id": pid,
            "quick_cmd": f"./check {pid} --tier quick",
            "thorough_cmd": f"./check {pid} --tier thorough",
            "evidence_file": f"/verif/evidence/{pid}.json",
            "replay_cmd_template": f"./check {pid} --replay {{path}}",
            "engine": "tlc+harness",
            "level_claimed": {"category": c.get("level", MC), "text": c["text"], "design_ref": "DESIGN.md section " + c["design"]},
            "level_note": c["note"],
            "technique": c["technique"],
        })
    m = {
        "version": 1,
        "setup_cmd": "./setup.sh",
        "hooks": {"guard": "METAPYPE_VERIF_TRACE", "enable": "no source hooks: the public API exposes every abstract field; the harness wraps calls from outside (PYTHONPATH=/repo/src)",
                  "baseline_off_cmd": "cd /repo && /venv/bin/python -m pytest -q -p no:cacheprovider",
                  "source_commits": [], "add_only": True},
        "engines": [{"name": "tlc+harness", "path": "/verif/check", "serves_properties": [c["property_id"] for c in checks],
                     "kind_free_text": "TLA+ specifications under /verif/spec checked by TLC 1.8; Python harness under /verif/harness binds them to /repo's working tree in both directions (replay of TLC's transition relation; trace validation of recorded executions)"}],
        "checks": checks,
        "not_applicable": [{"property_id": p, "reason": NOT_YET} for p in ALL if p not in CHECKS],
        "notes": "Exit codes of ./check: 0 held, 1 violation, 2 machinery failure. known_findings.json lists recorded and fixed defects.",
    }
    json.dump(m, open(os.path.join(V, "MANIFEST.json"), "w"), indent=1)
    try:
        import jsonschema
        jsonschema.validate(m, json.load(open("/root/.vp/MANIFEST.schema.json")))
        for pid in CHECKS:
            p = os.path.join(V, "evidence", pid + ".json")
            if os.path.exists(p):
                jsonschema.validate(json.load(open(p)), json.load(open("/root/.vp/EVIDENCE.schema.json")))
        print("MANIFEST.json valid;", len(checks), "checks")
    except ImportError:
        print("jsonschema not available; wrote MANIFEST.json unvalidated")

if __name__ == "__main__":
    main()
