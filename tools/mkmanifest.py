#!/venv/bin/python
"""Regenerates MANIFEST.json from the table below (keeps it schema-valid at all times)."""
import json, os, sys
V = os.path.dirname(os.path.dirname(os.path.abspath(__file__)))
ALL = [f"C{i:02d}" for i in range(1, 21)]

MC = "model_checking"
CHECKS = {
 "C09": dict(
   text="TLC explores every forest over 4 nodes x 2 names with every edit (append, insert at every index, remove, clear, replace, both shift modes and directions, and the failing variants) and checks the spec's own invariants/action properties; the harness replays every labelled transition, every state's full query table, all paths to depth 3/4 and seeded walks on real Node objects, and TraceForest.tla judges long random histories over 12-20 nodes recorded from the real API. Exhaustive within the bound; beyond it, sampled.",
   note="Trusted: TLC, the projection pi (public properties only), Python list semantics for building states. Assumes the usage constraint of the statement (one parent at a time, no cycles, in-range insert index). Stored parent links of unlisted nodes are not judged.",
   technique="TLA+ spec (Metapype.tla/Forest.tla) model-checked by TLC; logged transition relation replayed into the code; recorded histories trace-validated by TLC (TraceForest.tla)",
   design="4/C09"),
}
NOT_YET = "machinery for this property is not built yet in this session (see DESIGN.md section 10 build order); not claimed"

def main():
    checks = []
    for pid in ALL:
        if pid not in CHECKS:
            continue
        c = CHECKS[pid]
        checks.append({
            "property_id": pid,
            "quick_cmd": f"./check {pid} --tier quick",
            "thorough_cmd": f"./check {pid} --tier thorough",
            "evidence_file": f"/verif/evidence/{pid}.json",
            "replay_cmd_template": f"./check {pid} --replay {{path}}",
            "engine": "tlc+harness",
            "level_claimed": {"category": c.get("level", MC), "text": c["text"], "design_ref": "DESIGN.md section " + c["design"]},
            "level_note": c["note"],
            "technique": c["technique"],
        })
    m = {
        "version": 1,
        "setup_cmd": "./setup.sh",
        "hooks": {"guard": "METAPYPE_VERIF_TRACE", "enable": "no source hooks: the public API exposes every abstract field; the harness wraps calls from outside (PYTHONPATH=/repo/src)",
                  "baseline_off_cmd": "cd /repo && /venv/bin/python -m pytest -q -p no:cacheprovider",
                  "source_commits": [], "add_only": True},
        "engines": [{"name": "tlc+harness", "path": "/verif/check", "serves_properties": [c["property_id"] for c in checks],
                     "kind_free_text": "TLA+ specifications under /verif/spec checked by TLC 1.8; Python harness under /verif/harness binds them to /repo's working tree in both directions (replay of TLC's transition relation; trace validation of recorded executions)"}],
        "checks": checks,
        "not_applicable": [{"property_id": p, "reason": NOT_YET} for p in ALL if p not in CHECKS],
        "notes": "Exit codes of ./check: 0 held, 1 violation, 2 machinery failure. known_findings.json lists recorded and fixed defects.",
    }
    json.dump(m, open(os.path.join(V, "MANIFEST.json"), "w"), indent=1)
    try:
        import jsonschema
        jsonschema.validate(m, json.load(open("/root/.vp/MANIFEST.schema.json")))
        for pid in CHECKS:
            p = os.path.join(V, "evidence", pid + ".json")
            if os.path.exists(p):
                jsonschema.validate(json.load(open(p)), json.load(open("/root/.vp/EVIDENCE.schema.json")))
        print("MANIFEST.json valid;", len(checks), "checks")
    except ImportError:
        print("jsonschema not available; wrote MANIFEST.json unvalidated")

if __name__ == "__main__":
    main()
