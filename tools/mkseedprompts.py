#!/venv/bin/python
"""tools/mkseedprompts.py <round>: scratch worktrees /tmp/seed<round>-<ID> and prompts /tmp/seedout<round>/<ID>/prompt.txt for a
round of independently seeded changes.  A sub-agent gets ONLY that prompt (property text + summaries of earlier ideas to avoid)."""
import json, subprocess, os, sys, glob
R = sys.argv[1]
props = {json.loads(l)['id']: json.loads(l) for l in open('/verif/properties.jsonl')}
for pid in sorted(props):
    wt = f'/tmp/seed{R}-{pid}'
    so = f'/tmp/seedout{R}/{pid}'
    if not os.path.exists(wt):
        subprocess.check_call(['git', '-C', '/repo', 'worktree', 'add', '--detach', '-q', wt, 'HEAD'])
    os.makedirs(so, exist_ok=True)
    p = props[pid]
    prev = []
    for d in sorted(glob.glob(f'/verif/seeded/{pid}') + glob.glob(f'/verif/seeded/{pid}-*')):
        n = open(f'{d}/notes.md').read() if os.path.exists(f'{d}/notes.md') else ''
        prev.append(' '.join(n.strip().split())[:300])
    prevtxt = "\n".join(f"  ({i + 1}) {x}" for i, x in enumerate(prev))
    prompt = f"""You are helping evaluate a verification framework by seeding a realistic defect into a Python library.

Library: PASTAplus/metapype-eml (pure Python; models EML ecological metadata as an ordered node tree with JSON-driven validation rules and JSON/XML import/export). You have your OWN scratch git worktree of it at {wt} (source under {wt}/src/metapype, tests under {wt}/tests). Work ONLY inside {wt} and {so}. Do NOT read, list or use anything under /verif or /repo - what you write must be independent of any existing checks.

The semantic property to break (this is all you are given):

  id: {pid}
  title: {p['title']}
  statement: {p['statement']}
  quantifier: {p['quantifier']['text']}

Your task: make a change to the library source in {wt}/src/metapype (one or a few small edits, the kind of regression a real maintainer could introduce: a refactor gone wrong, an off-by-one, an optimisation, a wrong condition, two cooperating sites that each look fine alone) such that
  1. the library still imports and the existing test-suite still passes completely:  cd {wt} && PYTHONPATH={wt}/src /venv/bin/python -m pytest -q -p no:cacheprovider   (must report 60 passed);
  2. the property above is violated by the changed code;
  3. the violation needs something SPECIFIC to manifest - a particular multi-step sequence of operations, an unusual input, a boundary value, a particular tree shape or document, a particular order of calls - not something ordinary use would expose at once (so: do not break the common path; break a corner that the property still covers).
Prefer subtle over blatant. Do not edit the tests. Do not add new dependencies.

Additional constraints for this round (round {R}):
- {len(prev)} previous attempts already exist; summaries of their notes:
{prevtxt}
  Do something DIFFERENT from all of them: another function or file, another clause of the statement, another mechanism. Families already used heavily and to be avoided: process-wide caches/memoisation, shared mutable defaults, identity-vs-equality of small ints, dict/list aliasing between copies, weak references.
- Read the statement and its quantifier word by word and look for a part nobody touched yet. Make sure your change really violates the statement AS WRITTEN (including its stated exclusions / unspecified parts), not a stronger reading of it.
- Think about what an automated checker derived from the statement would most probably NOT exercise, while the statement still covers it: legal-but-unusual API usage (explicit ids, operating on a non-root node or on a node that was detached and re-attached, mixing the two importers/exporters or the legacy and current codecs, calling an operation twice, calling it on the result of another operation), combinations of two features that are each common alone, values at the far end of a range (very long, very deep, very wide, empty), characters from unusual Unicode classes inside the stated ranges, the order in which a dict or list was filled, an input that is valid for one rule and appears under another.
- Further inspiration (use at most one, and only if it fits the statement): regex anchors / flags / character classes; str predicates that disagree (isdigit / isdecimal / isnumeric, strip() vs strip(" ")); truthiness tests on values that may be "" or 0; exceptions swallowed or converted by a broad except; mutation of a list or dict while iterating over it; sort stability and key functions; default arguments; off-by-one at the first / last / only element; a fast path that skips work for a "trivial" case that is not trivial; an error message built from user data; a helper shared by two entry points that need slightly different behaviour; a condition that holds for every document in the test data but not in general (all names camelCase ASCII, every id unique, every tree rooted at eml, every node built top-down).
- `git stash` is shared across worktrees: to run against the unchanged code, save your diff (git diff > {so}/change.patch), `git apply -R` it, run, then `git apply` it again.

Deliver, in {so}/ :
  - demo.py : a small stand-alone program that exits 0 when the property holds for its scenario and exits 1 (printing what went wrong) when it is violated. It must be run as   PYTHONPATH=<some checkout>/src /venv/bin/python {so}/demo.py   and must FAIL (exit 1) against your changed worktree and PASS (exit 0) against the unchanged code.
  - notes.md : 5-10 lines: what you changed and why it is plausible, what exactly is needed for the violation to manifest, and the commands you ran with their results (test-suite summary line; demo exit codes with and without the change).
  - change.patch : the saved diff.
Leave your source change applied but UNCOMMITTED in {wt} (I will take `git diff`). Use /venv/bin/python (Python 3.12; lxml available). Report back briefly what you did."""
    open(f'{so}/prompt.txt', 'w').write(prompt)
print('ok')
