#!/usr/bin/env python3
"""tools/mkmutant.py <name> <file-relative-to-repo> <old> <new>  -> mutants/<name>.diff
Makes the edit in a throw-away worktree of /repo HEAD and stores the diff."""
import os, subprocess, sys, tempfile
name, rel, old, new = sys.argv[1:5]
wt = tempfile.mkdtemp(prefix="mkmut-", dir="/tmp")
os.rmdir(wt)
subprocess.check_call(["git", "-C", "/repo", "worktree", "add", "--detach", "-q", wt, "HEAD"])
try:
    p = os.path.join(wt, rel)
    s = open(p).read()
    assert s.count(old) == 1, f"old text occurs {s.count(old)} times"
    open(p, "w").write(s.replace(old, new))
    d = subprocess.check_output(["git", "-C", wt, "diff"], text=True)
    out = os.path.join(os.path.dirname(os.path.dirname(os.path.abspath(__file__))), "mutants", name + ".diff")
    open(out, "w").write(d)
    print("wrote", out)
finally:
    subprocess.call(["git", "-C", "/repo", "worktree", "remove", "--force", wt])
