#!/bin/sh
# Re-runs every stored seeded change (seeded/<ID>/patch.diff) against its quick check in a scratch worktree.
# Every line must say CAUGHT.
cd /verif
for d in seeded/C*; do
  id=$(basename $d)
  chk=$(echo $id | cut -d- -f1)
  cp $d/patch.diff /tmp/seeded-$id.diff
  if grep -q judged_outside_the_statement $d/meta.json 2>/dev/null; then echo "seeded $id: not claimed (outside the statement, see meta.json)"; rm -f /tmp/seeded-$id.diff; continue; fi
  tools/mutant.sh /tmp/seeded-$id.diff $chk | grep check
  rm -f /tmp/seeded-$id.diff
done
for m in mutants/*.diff; do
  id=$(basename $m | cut -d_ -f1 | tr a-z A-Z)
  tools/mutant.sh $m $id | grep check
done
