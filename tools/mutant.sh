#!/bin/sh
# tools/mutant.sh <patch-file> <ID> [<ID>...]
# Applies a patch to a scratch worktree of /repo (outside /repo and /verif), runs the repo's own
# tests there (the mutant must keep them green) and the named quick checks against it.
# Prints one line per check: CAUGHT (exit 1) / MISSED (exit 0) / BROKEN (exit 2). Removes the worktree.
set -u
patch=$(realpath "$1"); shift
name=$(basename "$patch" .diff)
wt=/tmp/mut-$name-$$
git -C /repo worktree add --detach -q "$wt" HEAD || exit 2
trap 'git -C /repo worktree remove --force "$wt" >/dev/null 2>&1; rm -rf /tmp/mutwork-$name-$$' EXIT
if ! git -C "$wt" apply "$patch"; then echo "PATCH-FAILED $name"; exit 2; fi
tests=$(cd "$wt" && PYTHONPATH="$wt/src" /venv/bin/python -m pytest -q -p no:cacheprovider -x 2>&1 | tail -1)
echo "mutant $name: repo tests: $tests"
cd /verif
for id in "$@"; do
  VERIF_REPO="$wt" VERIF_WORK=/tmp/mutwork-$name-$$ VERIF_EVIDENCE_DIR=/tmp/mutwork-$name-$$/evidence ./check "$id" --tier quick > /tmp/mutwork-$name-$$.$id.log 2>&1
  rc=$?
  case $rc in 1) v=CAUGHT;; 0) v=MISSED;; *) v=BROKEN;; esac
  echo "mutant $name: check $id: $v (exit $rc) $(grep -m1 -- '->' /tmp/mutwork-$name-$$.$id.log | cut -c1-200)"
  rm -f /tmp/mutwork-$name-$$.$id.log
done
