#!/bin/sh
# tools/seeded_par.sh [seed] [jobs]: like seeded_all.sh, several mutants at a time, with VERIF_SEED=<seed>.
# Prints one line per stored seeded change / own mutant; every claimed one must say CAUGHT.
# FILTER=<egrep pattern on the directory name> restricts the run (e.g. FILTER='-1[1-4]$' for rounds 11-14).
cd /verif
seed=${1:-0}; jobs=${2:-4}
list=$(mktemp)
for d in seeded/C*; do
  id=$(basename $d); chk=$(echo $id | cut -d- -f1)
  if [ -n "${FILTER:-}" ] && ! echo "$id" | grep -Eq -- "$FILTER"; then continue; fi
  if grep -q judged_outside_the_statement $d/meta.json 2>/dev/null; then echo "seeded $id: not claimed (outside the statement, see meta.json)"; continue; fi
  echo "$d/patch.diff $chk $id" >> $list
done
for m in mutants/*.diff; do
  [ -n "${FILTER:-}" ] && continue
  echo "$m $(basename $m | cut -d_ -f1 | tr a-z A-Z) $(basename $m .diff)" >> $list
done
cat $list | xargs -P $jobs -L 1 sh -c 'cp $0 /tmp/sp-$2.diff; VERIF_SEED='$seed' tools/mutant.sh /tmp/sp-$2.diff $1 | grep "check" | sed "s/^mutant sp-/mutant /"; rm -f /tmp/sp-$2.diff'
rm -f $list
