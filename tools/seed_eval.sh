#!/bin/sh
# tools/seed_eval.sh <ID> [<extra check IDs>...]: confirm a seeded change delivered by a sub-agent in /tmp/seed-<ID>
# (uncommitted diff) + /tmp/seedout/<ID>/demo.py, store it under /verif/seeded/<ID>/ and run the quick check(s) on it.
set -u
id=$1; shift
r=${ROUND:-}
wt=/tmp/seed$r-$id
so=/tmp/seedout$r/$id
out=/verif/seeded/$id${r:+-$r}
[ -d $wt ] || { echo "$id: no worktree $wt"; exit 2; }
mkdir -p $out
git -C $wt diff > $out/patch.diff
[ -s $out/patch.diff ] || { echo "$id: empty diff"; exit 2; }
cp $so/demo.py $out/demo.py
cp $so/notes.md $out/notes.md 2>/dev/null
tests=$(cd $wt && PYTHONPATH=$wt/src /venv/bin/python -m pytest -q -p no:cacheprovider 2>&1 | tail -1)
PYTHONPATH=$wt/src /venv/bin/python $out/demo.py > $so/demo_with.log 2>&1; with=$?
PYTHONPATH=/repo/src /venv/bin/python $out/demo.py > $so/demo_without.log 2>&1; without=$?
echo "$id: repo tests: $tests | demo with change: exit $with | demo on /repo: exit $without"
res=""
cd /verif
for c in $id "$@"; do
  VERIF_REPO=$wt VERIF_WORK=/tmp/seedwork-$id VERIF_EVIDENCE_DIR=/tmp/seedwork-$id/evidence ./check $c --tier quick > $so/check_$c.log 2>&1
  rc=$?
  first=$(grep -m1 -- '->' $so/check_$c.log | cut -c1-220)
  echo "$id: check $c quick: exit $rc $first"
  res="$res $c=$rc"
done
rm -rf /tmp/seedwork-$id
echo "$id RESULT tests='$tests' with=$with without=$without checks:$res"
