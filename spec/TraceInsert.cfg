SPECIFICATION TraceSpec
CONSTANTS
  FeedForeign = FALSE
  Words = TRUE
  Budget = 1
POSTCONDITION AllConsumed
CHECK_DEADLOCK FALSE
