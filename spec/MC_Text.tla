------------------------------- MODULE MC_Text --------------------------------
(***************************************************************************)
(* Design-level check of the whitespace policies of Text.tla on every      *)
(* string up to MaxLen over {SP, TAB, LF, NBSP, a, b}: the spec's own      *)
(* normaliser satisfies NormOK and is idempotent; Clean is idempotent      *)
(* (import-export-import stability) wherever it is specified.              *)
(***************************************************************************)
EXTENDS Text, TLC
CONSTANT MaxLen
VARIABLE s
Alphabet == {SP, TAB, LF, NBSP, 97, 98}
Init == s = <<>>
Next == Len(s) < MaxLen /\ \E c \in Alphabet : s' = Append(s, c)
Spec == Init /\ [][Next]_s
NormalizeOK == NormOK(s, Normalize(s)) /\ Normalize(Normalize(s)) = Normalize(s)
NormalizeSpaceIdem == NormalizeSpace(NormalizeSpace(NoNbsp(s))) = NormalizeSpace(NoNbsp(s))
CleanIdem == \A c \in BOOLEAN : ~CleanUnspec(s) => Clean(Clean(s, c), c) = Clean(s, c)
CleanKeepsWords == \A c \in BOOLEAN : ~CleanUnspec(s) /\ Clean(s, c) # NONE /\ ~AllOf(s, {SP, TAB, NBSP}) => Words(Clean(s, c)) = Words(s)
=============================================================================
