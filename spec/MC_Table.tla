------------------------------ MODULE MC_Table -------------------------------
(***************************************************************************)
(* C10: the shipped tables are closed and consistent.  Everything here is  *)
(* a constant expression over the generated RuleTable; TLC evaluates the   *)
(* clauses once (complete enumeration of the configuration) and logs every *)
(* failing subject, plus a witness (child word, content class) for every   *)
(* satisfiable element so that the harness can build the tree and run it   *)
(* through validate.tree.                                                  *)
(***************************************************************************)
EXTENDS RuleTable, ContentClass, Json, TLC

VARIABLE done
Elements == DOMAIN NodeMap
Resolved(e) == NodeMap[e] \in DOMAIN RulesJson
WF(r) == RuleErrors(RulesJson[r], ImplementedContentRules) = {}
RuleOf(e) == RulesJson[NodeMap[e]]
Model(e) == IF e = "metadata" THEN Eps       \* any single child is allowed; the witness needs none
            ELSE SectionRegex(RuleOf(e).l[2], NodeMap[e] \in MixedRules)

(* 1 *) Unresolved == {e \in Elements : ~Resolved(e)}
(* 2 *) IllFormed  == {<<r, err>> \in (DOMAIN RulesJson) \X
                        UNION {RuleErrors(RulesJson[q], ImplementedContentRules) : q \in DOMAIN RulesJson} :
                        err \in RuleErrors(RulesJson[r], ImplementedContentRules)}
Reachable == {NodeMap[e] : e \in {x \in Elements : Resolved(x)}}          \* rules some element maps to
(* 4 *) UnknownChildren == {<<r, a>> \in Reachable \X
                             UNION {Alphabet(SectionRegex(RulesJson[q].l[2], FALSE)) : q \in {x \in Reachable : WF(x)}} :
                             WF(r) /\ a \in Alphabet(SectionRegex(RulesJson[r].l[2], FALSE)) /\ a \notin Elements}

(* content: some class is accepted without relying on children *)
ContentChoices(e) == {cc \in AllClasses :
   ContentVerdict(ContentKinds(RuleOf(e).l[3]), IF HasEnum(RuleOf(e).l[3]) THEN "out" ELSE "none",
                  cc, NodeMap[e] \in MixedRules, FALSE) = "ACCEPT"}
EnumOK(e) == HasEnum(RuleOf(e).l[3]) /\ ContentEnum(RuleOf(e).l[3]) # {}
           /\ \A i \in 1..Len(ContentKinds(RuleOf(e).l[3])) : ContentKinds(RuleOf(e).l[3])[i] \in {"strContent", "anyContent"}
ContentSat(e) == ContentChoices(e) # {} \/ EnumOK(e)

(* 3: least fixpoint, layer by layer, so that witnesses have finite depth *)
Step(S) == S \cup {e \in Elements : Resolved(e) /\ WF(NodeMap[e]) /\ ContentSat(e) /\ NonEmptyLang(Model(e), S)}
RECURSIVE Layers(_)
Layers(ls) == LET T == Step(ls[Len(ls)]) IN IF T = ls[Len(ls)] THEN ls ELSE Layers(Append(ls, T))
SatLayers == Layers(<<{}>>)
Sat == SatLayers[Len(SatLayers)]
RankOf(e) == CHOOSE k \in 1..Len(SatLayers) : e \in SatLayers[k] /\ (k = 1 \/ e \notin SatLayers[k-1])
Unsatisfiable == {e \in Elements : Resolved(e) /\ WF(NodeMap[e]) /\ e \notin Sat}

WitnessWord(e) == MinWord(Model(e), SatLayers[RankOf(e) - 1])      \* children strictly from earlier layers
WitnessContent(e) == IF ContentChoices(e) # {} THEN (CHOOSE cc \in ContentChoices(e) : cc.cls \in {"NONE", "TEXT"} \/ \A d \in ContentChoices(e) : d.cls \notin {"NONE", "TEXT"})
                     ELSE [cls |-> "ENUM", bucket |-> ""]

Report ==
  /\ \A e \in Unresolved : PrintT(ToJson([k |-> "V", clause |-> "unresolved-rule", subject |-> e, detail |-> NodeMap[e]]))
  /\ \A p \in IllFormed : PrintT(ToJson([k |-> "V", clause |-> "ill-formed-rule", subject |-> p[1], detail |-> p[2]]))
  /\ \A p \in UnknownChildren : PrintT(ToJson([k |-> "V", clause |-> "unknown-child", subject |-> p[2], detail |-> p[1]]))
  /\ \A e \in Unsatisfiable : PrintT(ToJson([k |-> "V", clause |-> "unsatisfiable-element", subject |-> e, detail |-> NodeMap[e]]))
  /\ \A e \in Sat : PrintT(ToJson([k |-> "W", elem |-> e, rule |-> NodeMap[e], rank |-> RankOf(e), word |-> WitnessWord(e),
                                  content |-> WitnessContent(e)]))
  /\ PrintT(ToJson([k |-> "N", elements |-> Cardinality(Elements), rules |-> Cardinality(DOMAIN RulesJson),
                    reachable |-> Cardinality(Reachable), satisfiable |-> Cardinality(Sat), layers |-> Len(SatLayers) - 1]))

Init == done = FALSE
Next == done = FALSE /\ Report /\ done' = TRUE
Spec == Init /\ [][Next]_done
=============================================================================
