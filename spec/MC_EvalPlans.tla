----------------------------- MODULE MC_EvalPlans ------------------------------
(***************************************************************************)
(* C19: the dataset profiles the harness realises as VALID EML trees: every *)
(* threshold of the documented recommendations at -1 / 0 / +1.  Three       *)
(* feature groups are enumerated completely (the others at a default).      *)
(***************************************************************************)
EXTENDS Naturals, Sequences, FiniteSets, TLC, Json
VARIABLE profile
Default == [group |-> "default", titleWords |-> 5, abstract |-> "text20", keywords |-> <<5>>, coverage |-> TRUE, rights |-> TRUE,
            methods |-> TRUE, project |-> TRUE, source |-> "absent",
            table |-> [present |-> TRUE, desc |-> TRUE, size |-> TRUE, auth |-> TRUE, nrec |-> TRUE, delim |-> TRUE, attrMethods |-> "none"], other |-> "absent",
            party |-> [el |-> "creator", userId |-> "orcid", email |-> "one", given |-> TRUE]]
Abstracts == {"absent", "text19", "text20", "text21", "para19", "para20", "split19", "split20", "markdown20", "section-para20", "para-inline-only+para20",
              "para-inline-only", "para-empty", "para-list19", "para-list20"}      \* para-list: part of the words sit in paragraphs of lists nested inside a paragraph
(* source: a dataSource (an element with the content model of a dataset) nested in the methods of the dataset or of its
   table - "rich" has everything a dataset is recommended to have, "bare" has nothing of it.  What a nested data source
   has or lacks says nothing about the dataset around it. *)
GroupA == {[Default EXCEPT !.group = "dataset", !.titleWords = t, !.abstract = a, !.keywords = k, !.coverage = c, !.rights = r, !.methods = m, !.project = p, !.source = s] :
             t \in {1, 4, 5, 6}, a \in Abstracts, k \in {<<>>, <<4>>, <<5>>, <<2, 2>>, <<2, 3>>, <<0, 5>>}, c \in BOOLEAN, r \in BOOLEAN, m \in BOOLEAN, p \in BOOLEAN,
             s \in {"absent", "rich", "bare"}}
GroupB == {[Default EXCEPT !.group = "entities", !.table = [present |-> tp, desc |-> d, size |-> s, auth |-> a, nrec |-> n, delim |-> dl, attrMethods |-> am], !.other = o] :
             am \in {"none", "parties-complete", "parties-bare"},     \* attribute-level methods/methodStep/dataSource with responsible parties (deep below attributeList)
             tp \in BOOLEAN, d \in BOOLEAN, s \in BOOLEAN, a \in BOOLEAN, n \in BOOLEAN, dl \in BOOLEAN, o \in {"absent", "with-description", "without-description"}}
GroupC == {[Default EXCEPT !.group = "party", !.party = [el |-> e, userId |-> u, email |-> m, given |-> g]] :
             e \in {"creator", "contact", "associatedParty", "metadataProvider", "personnel"}, u \in {"none", "other-directory", "orcid", "other+orcid", "orcid+other", "orcid+other+other", "empty-orcid+other"},
             m \in {"none", "one", "empty-then-filled", "filled-then-empty", "value-only-then-filled"}, g \in BOOLEAN}      \* several e-mail addresses: ANY filled one counts
Init == profile \in GroupA \cup GroupB \cup GroupC
Next == UNCHANGED profile
Spec == Init /\ [][Next]_profile
Log == PrintT(ToJson([k |-> "EV", profile |-> profile]))
=============================================================================
