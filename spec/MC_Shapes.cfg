SPECIFICATION Spec
CONSTANTS
  MaxN = 4
  Names = {"a", "b"}
  Mode = "pairs"
INVARIANT EncodingOK
INVARIANT Log
