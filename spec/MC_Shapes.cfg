SPECIFICATION Spec
CONSTANTS
  MaxN = 4
  Names = {"a", "b"}
INVARIANT EncodingOK
INVARIANT Log
