SPECIFICATION Spec
CONSTANT Focus = "maps"
INVARIANT OracleOK
INVARIANT Log
