------------------------------ MODULE MC_Fields ------------------------------
(***************************************************************************)
(* C18, fields: every pair of nodes over a small ADVERSARIAL universe per  *)
(* field, alone and as the only child of two otherwise identical parents.  *)
(* The universes are chosen so that any comparison that folds two fields   *)
(* into one derived key collides somewhere:                                *)
(*   name "a" / "x:a" with prefix none / "x"    (prefix ":" name)          *)
(*   content and tail over none / "" / text     (None vs empty, swapped)   *)
(*   the same key-value pair as attribute or as extra (merged dicts)       *)
(*   namespace map empty / {x -> u}                                        *)
(* TreeEq of Steps.tla is the oracle; the harness asks Node.is_equal for   *)
(* every ordered pair of the four nodes.                                   *)
(***************************************************************************)
EXTENDS Steps, TLC, Json

CONSTANT Focus        \* "fields": scalar fields against each other; "maps": the three mappings (insertion order, sub-maps, swapped values);
                      \* "texts": content and tail over look-alike texts; "prefixes": the prefix field against maps that bind two prefixes to one URI
VARIABLES a, b
NamesU   == IF Focus = "fields" THEN {"a", "x:a"} ELSE {"a"}
PrefixU  == IF Focus = "fields" THEN {NOSTR, "x"} ELSE IF Focus = "prefixes" THEN {NOSTR, "x", "y"} ELSE {NOSTR}
TextU    == IF Focus = "fields" THEN {0, 1, 2} ELSE IF Focus = "texts" THEN 0..6 ELSE {0}
            \* fields: None, a text, the empty string; texts: None, "", and five texts the harness realises as whitespace-only
            \* strings with and without line breaks and a visible text (equal atom <=> identical string, nothing else is equal)
KvU      == IF Focus = "fields" THEN {<<>>, << <<"k1", 1>> >>} ELSE IF Focus \in {"texts", "prefixes"} THEN {<<>>}
            ELSE {<<>>, << <<"k1", 1>> >>, << <<"k1", 1>>, <<"k2", 2>> >>, << <<"k2", 2>>, <<"k1", 1>> >>,      \* the same mapping filled in two orders
                  << <<"k1", 2>>, <<"k2", 1>> >>, << <<"k2", 2>> >>}                                         \* values swapped; a sub-map
NsU      == IF Focus = "fields" THEN {{}, {<<"x", "u">>}} ELSE IF Focus = "texts" THEN {{}}
            ELSE IF Focus = "prefixes" THEN {{}, {<<"x", "u">>}, {<<"x", "u">>, <<"y", "u">>}, {<<"x", "u">>, <<"y", "v">>},       \* two prefixes bound to ONE uri
                                             {<<"~default", "u">>, <<"x", "u">>}}                                              \* ... or a prefix and the default namespace
            ELSE {{}, {<<"x", "u">>}, {<<"x", "u">>, <<"y", "v">>}, {<<"x", "v">>, <<"y", "u">>}, {<<"y", "v">>}}
NodeRec  == [name : NamesU, prefix : PrefixU, content : TextU, tail : TextU, attrs : KvU, extras : KvU, ns : NsU]

(* nodes 1, 2: the two nodes as children of parents 3, 4; nodes 5, 6: the same two nodes alone *)
State == LET f(x) == <<x, x>> IN
  [name    |-> <<a.name, b.name, "p", "p", a.name, b.name>>,
   kids    |-> << <<>>, <<>>, <<1>>, <<2>>, <<>>, <<>> >>,
   ns      |-> <<a.ns, b.ns, {}, {}, a.ns, b.ns>>,
   content |-> <<a.content, b.content, 0, 0, a.content, b.content>>,
   tail    |-> <<a.tail, b.tail, 0, 0, a.tail, b.tail>>,
   prefix  |-> <<a.prefix, b.prefix, NOSTR, NOSTR, a.prefix, b.prefix>>,
   attrs   |-> <<a.attrs, b.attrs, <<>>, <<>>, a.attrs, b.attrs>>,
   extras  |-> <<a.extras, b.extras, <<>>, <<>>, a.extras, b.extras>>,
   store   |-> 1..6]

Init == a \in NodeRec /\ b \in NodeRec
Next == UNCHANGED <<a, b>>
Spec == Init /\ [][Next]_<<a, b>>

(* mappings are compared as mappings: the order in which they were filled does not matter *)
Same == /\ a.name = b.name /\ a.prefix = b.prefix /\ a.content = b.content /\ a.tail = b.tail /\ a.ns = b.ns
        /\ Range(a.attrs) = Range(b.attrs) /\ Range(a.extras) = Range(b.extras)
OracleOK == LET S == State IN (TreeEq(S, 5, 6) <=> Same) /\ (TreeEq(S, 3, 4) <=> Same)
Log == LET S == State IN
  PrintT(ToJson([k |-> "E", st |-> S, lvl |-> 1, same |-> Same,
                 eq |-> {<<m, n>> \in NodesOf(S) \X NodesOf(S) : m # n /\ TreeEq(S, m, n)}]))
=============================================================================
