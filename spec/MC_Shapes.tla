------------------------------ MODULE MC_Shapes ------------------------------
(***************************************************************************)
(* C18, shapes: EVERY pair of ordered, labelled trees with at most MaxN    *)
(* nodes each, as two trees of one forest state.  A tree is given by its   *)
(* pre-order depth sequence d (d[1] = 0, d[i] in 1..d[i-1]+1 - each such   *)
(* sequence is exactly one ordered tree) and its pre-order name sequence.  *)
(* Two different trees can have the same pre-order name sequence, the same *)
(* number of nodes, the same multiset of (name, child count) ... - the     *)
(* only complete criterion is the recursive one of Steps!TreeEq, which is  *)
(* evaluated here on the child lists reconstructed from d.  TLC logs every *)
(* pair with the set of equal node pairs; the harness builds both trees    *)
(* and asks Node.is_equal for every pair of nodes in both argument orders. *)
(***************************************************************************)
EXTENDS Steps, TLC, Json

CONSTANTS MaxN, Names, Mode       \* Mode "pairs": every pair of trees; "single": every tree once (the second tree is a single node)
VARIABLES d1, n1, d2, n2

DepthSeqs(n) == {d \in [1..n -> 0..(n - 1)] : d[1] = 0 /\ \A i \in 2..n : d[i] >= 1 /\ d[i] <= d[i - 1] + 1}
Trees == UNION {{<<d, nm>> : d \in DepthSeqs(n), nm \in [1..n -> Names]} : n \in 1..MaxN}

(* child lists from a depth sequence, node ids shifted by base *)
ParentIn(d, i) == CHOOSE j \in 1..(i - 1) : d[j] = d[i] - 1 /\ \A k \in (j + 1)..(i - 1) : d[k] >= d[i]
KidsOf(d, j, base) == LET ks == {i \in 2..Len(d) : ParentIn(d, i) = j}
                          RECURSIVE up(_)
                          up(m) == IF m > Len(d) THEN <<>> ELSE (IF m \in ks THEN <<base + m>> ELSE <<>>) \o up(m + 1)
                      IN up(2)
State == LET a == Len(d1)  b == Len(d2)  N == a + b IN
  [name    |-> [i \in 1..N |-> IF i <= a THEN n1[i] ELSE n2[i - a]],
   kids    |-> [i \in 1..N |-> IF i <= a THEN KidsOf(d1, i, 0) ELSE KidsOf(d2, i - a, a)],
   ns      |-> [i \in 1..N |-> {}],
   content |-> [i \in 1..N |-> 0],
   tail    |-> [i \in 1..N |-> 0],
   prefix  |-> [i \in 1..N |-> NOSTR],
   attrs   |-> [i \in 1..N |-> <<>>],
   extras  |-> [i \in 1..N |-> <<>>],
   store   |-> 1..N]

One == CHOOSE x \in Names : TRUE
Init == \E t1 \in Trees, t2 \in (IF Mode = "pairs" THEN Trees ELSE {<<<<0>>, <<One>>>>}) : d1 = t1[1] /\ n1 = t1[2] /\ d2 = t2[1] /\ n2 = t2[2]
Next == UNCHANGED <<d1, n1, d2, n2>>
Spec == Init /\ [][Next]_<<d1, n1, d2, n2>>

(* sanity of the encoding: the reconstructed forest is a forest, and whole-tree equality is equality of the encodings *)
EncodingOK == LET S == State IN
  /\ NoSharing(S.kids)
  /\ (TreeEq(S, 1, Len(d1) + 1) <=> (d1 = d2 /\ n1 = n2))
Log == LET S == State IN
  PrintT(ToJson([k |-> "E", st |-> S, lvl |-> 1, same |-> (d1 = d2 /\ n1 = n2),
                 eq |-> {<<a, b>> \in NodesOf(S) \X NodesOf(S) : a # b /\ TreeEq(S, a, b)}]))
(* C12 on every shape: the copy of every subtree of the first tree, as the function Steps!CopyF of the state *)
LogCopy == LET S == State IN
  \A n \in 1..Len(d1) : PrintT(ToJson([k |-> "T", from |-> S, op |-> [name |-> "copy", args |-> <<n>>, ret |-> CopyRet(S, n)], to |-> CopyF(S, n)]))
CopyIsEqualAndDisjoint == LET S == State IN
  \A n \in 1..Len(d1) : LET S2 == CopyF(S, n) IN TreeEq(S2, n, CopyRet(S, n)) /\ Desc(S2.kids, n) \cap Desc(S2.kids, CopyRet(S, n)) = {} /\ NoSharing(S2.kids)
=============================================================================
