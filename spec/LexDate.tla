------------------------------- MODULE LexDate --------------------------------
(***************************************************************************)
(* C02, lexical layer for the year-or-date and ISO-time content kinds,     *)
(* over the tiny alphabet {+, -, 0, 1, 2, 9, :, T}: every string up to     *)
(* MaxLen gets a three-valued verdict from two grammars per type           *)
(*   strict   - canonical forms: YYYY (not 0000); YYYY-MM-DD and HH:MM:SS  *)
(*              are longer than MaxLen and are covered by the class        *)
(*              generators of MC_Content instead                           *)
(*   generous - everything that could be read as a lenient spelling of the *)
(*              type: for a year or date digits and hyphens only (unpadded *)
(*              fields, compact forms, a leading minus); for a time an     *)
(*              optional leading T, digits, colons and further Ts, at most *)
(*              one zone sign after the first character                    *)
(* A string outside the generous grammar is clearly not of the type:       *)
(* always rejected.  In particular a plus sign never occurs in a year or   *)
(* date, and a time never starts with a sign.                              *)
(***************************************************************************)
EXTENDS Naturals, Integers, Sequences, FiniteSets, TLC, Json

CONSTANT MaxLen
VARIABLE s
Sigma == {"+", "-", "0", "1", "2", "9", ":", "T"}
Digits == {"0", "1", "2", "9"}
Count(x, c) == Cardinality({i \in 1..Len(x) : x[i] = c})
HasDigit(x) == \E i \in 1..Len(x) : x[i] \in Digits

StrictYear(x)   == Len(x) = 4 /\ (\A i \in 1..4 : x[i] \in Digits) /\ x # <<"0", "0", "0", "0">>
GenerousYD(x)   == HasDigit(x) /\ \A i \in 1..Len(x) : x[i] \in Digits \cup {"-"}
StrictTime(x)   == FALSE                                \* HH:MM:SS needs 8 characters
GenerousTime(x) == /\ HasDigit(x)
                   /\ x[1] \in Digits \cup {"T"}
                   /\ Count(x, "+") + Count(x, "-") <= 1
                   \* (a T further right is tolerated by Python's parser in front of a zone, "11T-11": unspecified)

Tri(strict, generous) == IF strict THEN "ACCEPT" ELSE IF ~generous THEN "REJECT" ELSE "UNSPEC"
YDVerdict(x)   == Tri(StrictYear(x), GenerousYD(x))
TimeVerdict(x) == Tri(StrictTime(x), GenerousTime(x))

Init == s = <<>>
Next == Len(s) < MaxLen /\ \E c \in Sigma : s' = Append(s, c)
Spec == Init /\ [][Next]_s

StrictWithinGenerous == (StrictYear(s) => GenerousYD(s)) /\ (StrictTime(s) => GenerousTime(s))
Log == s # <<>> => PrintT(ToJson([k |-> "L", s |-> s, yd |-> YDVerdict(s), time |-> TimeVerdict(s)]))
=============================================================================
