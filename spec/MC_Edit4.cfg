SPECIFICATION Spec
CONSTANTS
  MaxN = 4
  NameSet = {"a", "ab"}
  Prefixes = {}
  Uris = {}
  Texts = {}
  Keys = {}
  MaxLevel = 99
  NameVectors <- NoVectors
  InitMode = "all"
  LogFields = {"name", "kids"}
  Ops = {"add_child", "insert", "insert_py", "remove_child", "remove_child_fail", "remove_children", "replace_child", "replace_child_fail", "shift", "shift_fail"}
VIEW StateView
INVARIANT TypeOK
INVARIANT ForestOK
INVARIANT LogStateQ
PROPERTY FailedEditUnchanged
PROPERTY ShiftRetOK
PROPERTY RegistryStep
ACTION_CONSTRAINT LogTransition
