SPECIFICATION Spec
INVARIANT Total
INVARIANT Log
