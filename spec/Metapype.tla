------------------------------ MODULE Metapype ------------------------------
(***************************************************************************)
(* State machine of the mutable core of metapype (model/node.py): one      *)
(* action per public mutator, failing calls as separate named actions,     *)
(* read-only calls as stuttering.  Step functions are operators on a state *)
(* record so that the bounded MC_* instances (variable st) and Trace.tla   *)
(* (logged pre/post states) share one definition.                          *)
(***************************************************************************)
EXTENDS Steps, TLC, Json

CONSTANTS MaxN,        \* bound on the number of node ids ever created
          NameSet,     \* element names used by Create / Init
          Prefixes, Uris,   \* namespace universe
          Texts,       \* text atoms for field edits (small naturals > 0)
          Keys,        \* attribute / extras keys (strings)
          Ops,         \* which actions this instance enables (set of strings)
          MaxLevel,    \* states at this depth are not expanded (99 = unbounded for our instances)
          NameVectors, \* InitMode "vectors": the name assignments to start from (set of sequences)
          InitMode     \* "all": MaxN detached nodes exist, every name assignment
                       \* "none": empty registry, nodes appear through Create/Copy/Import
                       \* "templates": the copy templates of MC_Copy

VARIABLES st, op
vars == <<st, op>>
StateView == st          \* op is history: hidden from the fingerprint

----------------------------------------------------------------------------
(* the bounded state machine *)

Nodes == NodesOf(st)
K == st.kids
O(nm, args, ret, ok) == [name |-> nm, args |-> args, ret |-> ret, ok |-> ok]
Step(S2, o) == st' = S2 /\ op' = o
Stutter(o)  == st' = st /\ op' = o
On(x) == x \in Ops

(* copy templates (MC_Copy): every field populated somewhere, several shapes *)
(* every template ends with one spare detached node "s" so that AddChild has something to attach *)
T1 == MkNodes(EmptyState, <<"a", "s">>)
T2 == LET s == MkNodes(EmptyState, <<"a", "b", "a", "s">>)
      IN [s EXCEPT !.kids = <<<<2, 3>>, <<>>, <<>>, <<>>>>, !.content = <<NULL, 1, 2, NULL>>, !.tail = <<NULL, 2, NULL, NULL>>,
                   !.attrs = << <<<<"k1", 1>>>>, <<>>, <<<<"k1", 2>>, <<"k2", 1>>>>, <<>> >>]
T3 == LET s == MkNodes(EmptyState, <<"a", "b", "a", "b", "s">>)
      IN [s EXCEPT !.kids = <<<<2, 4>>, <<3>>, <<>>, <<>>, <<>>>>,
                   !.ns = <<{<<"x", "u">>}, {<<"x", "u">>}, {<<"x", "u">>, <<"y", "v">>}, {<<"x", "u">>}, {}>>,
                   !.prefix = <<"x", NOSTR, "y", NOSTR, NOSTR>>, !.content = <<NULL, NULL, 1, 1, NULL>>,
                   !.extras = << <<>>, <<<<"k1", 1>>>>, <<<<"k2", 2>>>>, <<>>, <<>> >>,
                   !.attrs = << <<<<"k1", 1>>>>, <<>>, <<>>, <<<<"k2", 2>>>>, <<>> >>]
(* siblings that differ only in WHICH key carries a value, one of them the value None (atom 0): a comparison that
   looks keys up with a default cannot tell them apart *)
T4 == LET s == MkNodes(EmptyState, <<"a", "b", "b", "b", "b", "s">>)
      IN [s EXCEPT !.kids = <<<<2, 3, 4, 5>>, <<>>, <<>>, <<>>, <<>>, <<>>>>,
                   !.attrs  = << <<>>, <<<<"k1", 0>>>>, <<<<"k2", 1>>>>, <<>>, <<>>, <<>> >>,
                   !.extras = << <<>>, <<>>, <<>>, <<<<"k1", 0>>>>, <<<<"k2", 1>>>>, <<>> >>]
Templates == {T1, T2, T3, T4}
ImportShapes == {<<0>>, <<0, 1, 1>>, <<0, 1, 2>>}   \* parent position of each node, in pre-order

NoVectors    == {}
Edit5Vectors == {<<"a", "a", "ab", "a", "ab">>, <<"a", "ab", "a", "ab", "a">>}      \* "a" is a substring of "ab": name matching must be equality      \* cfg: NameVectors <- Edit5Vectors

Init ==
  /\ op = O("init", <<>>, NULL, TRUE)
  /\ CASE InitMode = "all"  -> \E nms \in [1..MaxN -> NameSet] : st = MkNodes(EmptyState, nms)
       [] InitMode = "vectors" -> \E nms \in NameVectors : st = MkNodes(EmptyState, nms)
       [] InitMode = "none" -> st = EmptyState
       [] InitMode = "templates" -> st \in Templates

Create(nm) == On("create") /\ Size(st) < MaxN
              /\ Step(NewNode(st, nm), O("create", <<nm>>, Size(st) + 1, TRUE))

AddChild(p, c, i) ==
  /\ On("add_child") /\ CanAttach(K, p, c)
  /\ (i = NOIDX \/ (On("insert") /\ i \in 0..Len(K[p]))
               \/ (On("insert_py") /\ Len(K[p]) <= 2 /\ i \in (-(2 * Len(K[p]) + 3)..-2) \cup {Len(K[p]) + 1, Len(K[p]) + 2}))     \* Python's negative / beyond-the-end indexes
  /\ Step(AddChildF(st, p, c, i), O("add_child", <<p, c, i>>, NULL, TRUE))
RemoveChild(p, c) ==
  /\ On("remove_child") /\ Has(K[p], c)
  /\ Step(RemoveChildF(st, p, c), O("remove_child", <<p, c>>, NULL, TRUE))
RemoveChildFail(p, c) ==     \* raises; nothing changes
  /\ On("remove_child_fail") /\ ~Has(K[p], c)
  /\ Stutter(O("remove_child", <<p, c>>, NULL, FALSE))
RemoveChildren(p) ==
  /\ On("remove_children") /\ Step(RemoveChildrenF(st, p), O("remove_children", <<p>>, NULL, TRUE))
ReplaceChild(p, o, n, del) ==
  /\ On("replace_child") /\ (del => On("replace_delete") /\ Desc(K, o) \subseteq st.store)
  /\ Has(K[p], o) /\ st.name[n] = st.name[o] /\ (n = o \/ CanAttach(K, p, n))      \* n = o: the node stays attached to exactly one parent
  /\ Step(ReplaceChildF(st, p, o, n, del), O("replace_child", <<p, o, n, del>>, NULL, TRUE))
ReplaceChildFailUnregistered(p, o, n) ==      \* replace with deletion of an old child that is itself no longer registered: the
  /\ On("replace_delete") /\ Has(K[p], o) /\ st.name[n] = st.name[o] /\ CanAttach(K, p, n) /\ n # o /\ o \notin st.store      \* edit fails and,
  /\ Stutter(O("replace_child", <<p, o, n, TRUE>>, NULL, FALSE))                                                            \* like every failing edit, changes nothing
ReplaceChildFail(p, o, n) ==  \* name mismatch, or old child not listed: raises; child lists unchanged
  /\ On("replace_child_fail") /\ CanAttach(K, p, n) /\ n # o /\ (st.name[n] # st.name[o] \/ ~Has(K[p], o))
  /\ Stutter(O("replace_child", <<p, o, n, FALSE>>, NULL, FALSE))
Shift(p, c, dir, sib) ==
  /\ On("shift") /\ Has(K[p], c)
  /\ Step(ShiftF(st, p, c, dir, sib), O("shift", <<p, c, dir, sib>>, ShiftRet(st, p, c, dir, sib), TRUE))
ShiftFail(p, c, dir, sib) ==
  /\ On("shift_fail") /\ ~Has(K[p], c)
  /\ Stutter(O("shift", <<p, c, dir, sib>>, NULL, FALSE))

AddNamespace(n, q, u) ==
  /\ On("add_namespace") /\ Step(AddNamespaceF(st, n, q, u), O("add_namespace", <<n, q, u>>, NULL, TRUE))
RemoveNamespace(n, q) ==
  /\ On("remove_namespace") /\ Step(RemoveNamespaceF(st, n, q), O("remove_namespace", <<n, q>>, NULL, TRUE))

Copy(n) ==
  /\ On("copy") /\ Size(st) + Cardinality(Desc(K, n)) <= MaxN
  /\ Step(CopyF(st, n), O("copy", <<n>>, CopyRet(st, n), TRUE))
Import(kind, shape) ==     \* from_xml / from_json of a document whose ids are fresh: nodes appear in pre-order
  /\ On("import") /\ Size(st) + Len(shape) <= MaxN
  /\ Step(ImportF(st, "a", shape), O("import", <<kind, shape>>, Size(st) + 1, TRUE))
Delete(n, children) ==     \* precondition of the statement: registered id; recursive only over registered nodes
  /\ On("delete") /\ n \in st.store /\ (children => Desc(K, n) \subseteq st.store)
  /\ Step(DeleteF(st, n, children), O("delete", <<n, children>>, NULL, TRUE))

SetContent(n, t) == On("set_content") /\ Step(SetContentF(st, n, t), O("set_content", <<n, t>>, NULL, TRUE))
SetTail(n, t)    == On("set_tail")    /\ Step(SetTailF(st, n, t),    O("set_tail", <<n, t>>, NULL, TRUE))
SetName(n, x)    == On("set_name")    /\ Step(SetNameF(st, n, x),    O("set_name", <<n, x>>, NULL, TRUE))
SetPrefix(n, q)  == On("set_prefix")  /\ Step(SetPrefixF(st, n, q),  O("set_prefix", <<n, q>>, NULL, TRUE))
AddAttribute(n, k, v) == On("add_attribute") /\ Step(AddAttributeF(st, n, k, v), O("add_attribute", <<n, k, v>>, NULL, TRUE))
RemoveAttribute(n, k) == On("remove_attribute") /\ HasKey(st.attrs[n], k)
                         /\ Step(RemoveAttributeF(st, n, k), O("remove_attribute", <<n, k>>, NULL, TRUE))
AddExtras(n, k, v)    == On("add_extras") /\ Step(AddExtrasF(st, n, k, v), O("add_extras", <<n, k, v>>, NULL, TRUE))

Next == TLCGet("level") < MaxLevel /\
  \/ \E nm \in NameSet : Create(nm)
  \/ \E kind \in {"xml", "json", "json-null-ids", "legacy-json"}, shape \in ImportShapes : Import(kind, shape)     \* a JSON document may leave ids null: fresh ids are made
  \/ \E p, c \in Nodes :
       \/ \E i \in (-(2 * MaxN + 3))..(MaxN + 2) : AddChild(p, c, i)
       \/ RemoveChild(p, c) \/ RemoveChildFail(p, c)
       \/ \E dir \in {"L", "R"}, sib \in BOOLEAN : Shift(p, c, dir, sib) \/ ShiftFail(p, c, dir, sib)
       \/ \E n \in Nodes : (\E del \in BOOLEAN : ReplaceChild(p, c, n, del)) \/ ReplaceChildFail(p, c, n) \/ ReplaceChildFailUnregistered(p, c, n)
  \/ \E p \in Nodes :
       \/ RemoveChildren(p) \/ Copy(p)
       \/ \E ch \in BOOLEAN : Delete(p, ch)
       \/ \E q \in Prefixes : RemoveNamespace(p, q) \/ \E u \in Uris : AddNamespace(p, q, u)
       \/ \E t \in Texts \cup {NULL} : SetContent(p, t) \/ SetTail(p, t)
       \/ \E x \in NameSet : SetName(p, x)
       \/ \E q \in Prefixes \cup {NOSTR} : SetPrefix(p, q)
       \/ \E k \in Keys : RemoveAttribute(p, k) \/ \E v \in Texts \cup {NULL} : AddAttribute(p, k, v) \/ AddExtras(p, k, v)   \* None is a legal value

Spec == Init /\ [][Next]_vars

----------------------------------------------------------------------------
(* properties checked on the model *)

TypeOK == /\ \A f \in {"name", "ns", "content", "tail", "prefix", "attrs", "extras"} : Len(st[f]) = Size(st)
          /\ \A n \in Nodes : Range(K[n]) \subseteq Nodes /\ NsFunctional(st.ns[n])
          /\ st.store \subseteq Nodes
ForestOK == NoSharing(K) /\ Acyclic(K)                 \* C09: the usage constraint is preserved by every edit
NsInclusion == \A p \in Nodes : \A i \in 1..Len(K[p]) : NsDom(st.ns[p]) \subseteq NsDom(st.ns[K[p][i]])

(* C13: no namespace operation changes bindings outside the subtree it was applied to *)
Target(o) == CASE o.name = "add_child" -> o.args[2]
               [] o.name \in {"add_namespace", "remove_namespace"} -> o.args[1]
               [] OTHER -> NULL
Frame == [][LET t == Target(op') IN
             \A m \in Nodes : (t = NULL \/ m \notin Desc(st'.kids, t)) /\ m <= Size(st') => st'.ns[m] = st.ns[m]]_vars
(* C13: what the operations establish *)
NsEffect == [][LET o == op' IN
     /\ o.name = "add_namespace" => \A m \in Desc(K, o.args[1]) : <<o.args[2], o.args[3]>> \in st'.ns[m]
     /\ o.name = "remove_namespace" => \A m \in Desc(K, o.args[1]) : o.args[2] \notin NsDom(st'.ns[m])
     /\ o.name = "add_child" => st'.ns[o.args[2]] = NsMerge(st.ns[o.args[1]], st.ns[o.args[2]])]_vars
(* C09: a failing edit leaves the tree unchanged; shift reports the child's actual new index *)
FailedEditUnchanged == [][op'.ok = FALSE => st' = st]_vars
ShiftRetOK == [][op'.name = "shift" /\ op'.ok => op'.ret = ChildIndex(st'.kids, op'.args[1], op'.args[2])]_vars
(* C14: registry = created minus explicitly discarded *)
RegistryStep == [][LET o == op' IN
     /\ o.name \in {"create", "copy", "import"} => st'.store = st.store \cup ((Size(st)+1)..Size(st'))
     /\ o.name = "delete" => st'.store = st.store \ (IF o.args[2] THEN Desc(K, o.args[1]) ELSE {o.args[1]})
     /\ o.name = "replace_child" /\ o.ok => st'.store = st.store \ (IF o.args[4] /\ o.args[2] # o.args[3] THEN Desc(K, o.args[2]) ELSE {})
     /\ o.name \notin {"create", "copy", "import", "delete", "replace_child"} => st'.store = st.store]_vars
(* C12: right after a copy the two trees are equal, disjoint, and the copy is registered *)
CopyOK == [][op'.name = "copy" =>
     LET src == op'.args[1]  dst == op'.ret IN
       /\ TreeEq(st', src, dst) /\ Desc(st'.kids, src) \cap Desc(st'.kids, dst) = {}
       /\ Desc(st'.kids, dst) = (Size(st)+1)..Size(st') /\ Desc(st'.kids, dst) \subseteq st'.store
       /\ ~Listed(st'.kids, dst)
       /\ \A f \in {"name", "kids", "ns", "content", "tail", "prefix", "attrs", "extras"} :
             SubSeq(st'[f], 1, Size(st)) = st[f]]_vars

----------------------------------------------------------------------------
(* logging for the spec->code binding *)

NameUniverse == NameSet
Paths2 == {<<x>> : x \in NameUniverse} \cup {<<x, y>> : x, y \in NameUniverse} \cup {<<>>}
Queries(S) ==
  LET KK == S.kids  nm == S.name  NN == NodesOf(S)  IN
  [find_child |-> [n \in NN |-> [x \in NameUniverse |-> FindChild(KK, nm, n, x)]],
   find_all_children |-> [n \in NN |-> [x \in NameUniverse |-> FindAllChildren(KK, nm, n, x)]],
   find_descendant |-> [n \in NN |-> [x \in NameUniverse |-> FindDescendant(KK, nm, n, x)]],
   find_all_descendants |-> [n \in NN |-> [x \in NameUniverse |-> FindAllDescendants(KK, nm, n, x)]],
   single_by_path |-> [n \in NN |-> {<<pa, SingleByPath(KK, nm, n, pa)>> : pa \in Paths2}],
   all_by_path |-> [n \in NN |-> {<<pa, AllByPath(KK, nm, n, pa)>> : pa \in Paths2}],
   ancestry |-> [n \in NN |-> AncestrySeq(KK, n)],
   child_index |-> [p \in NN |-> [c \in NN |-> ChildIndex(KK, p, c)]]]

CONSTANT LogFields        \* which state fields the binding logs (the others are constant in that instance)
Pj(S) == [f \in LogFields |-> S[f]]
LogTransition == TLCGet("level") < MaxLevel => PrintT(ToJson([k |-> "T", from |-> Pj(st), op |-> op', to |-> Pj(st')]))
LogState      == PrintT(ToJson([k |-> "S", st |-> Pj(st)]))
LogStateEq    == TLCGet("level") <= MaxLevel => PrintT(ToJson([k |-> "E", st |-> Pj(st), lvl |-> TLCGet("level"),
                    eq |-> {<<a, b>> \in Nodes \X Nodes : a # b /\ TreeEq(st, a, b)}]))
(* MC_Copy: the first step copies a template subtree, then edits follow, to a bounded depth *)
(* optionally one remove_namespace first, so that a copied subtree may hold a node that lacks a prefix its parent has *)
CopyFirst == /\ (op.name = "init" => op'.name \in {"copy", "remove_namespace"})
             /\ (op.name = "remove_namespace" /\ TLCGet("level") = 2 => op'.name = "copy")
LevelStep == TLCGet("level") < MaxLevel         \* ACTION_CONSTRAINT: states at MaxLevel are not expanded
LogStateQ     == PrintT(ToJson([k |-> "Q", st |-> Pj(st), q |-> Queries(st)]))
=============================================================================
