SPECIFICATION Spec
CONSTANTS
  MaxN = 7
  Names = {"a"}
  Mode = "single"
INVARIANT EncodingOK
INVARIANT CopyIsEqualAndDisjoint
INVARIANT LogCopy
