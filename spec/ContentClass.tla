---------------------------- MODULE ContentClass -----------------------------
(***************************************************************************)
(* C02: the decision table of content validation over ABSTRACT content     *)
(* classes.  A class is a set of strings all of which the statement treats *)
(* alike; the harness concretises each class by constructive generators    *)
(* (members by construction).  Facts are three-valued: "y" (clearly of the *)
(* type / canonical lexical form), "n" (clearly not), "u" (a lenient       *)
(* spelling the underlying Python parsers happen to tolerate - left        *)
(* unspecified by the statement).                                          *)
(***************************************************************************)
EXTENDS Naturals, Sequences, FiniteSets

(* value buckets of numeric classes, ordered along the real line, plus the non-reals *)
Buckets == {"lt-180", "eq-180", "in-180-90", "eq-90", "in-90-0", "negzero", "zero", "in0-90", "eq90", "in90-180", "eq180",
            "gt180", "nan", "pinf", "ninf", "na"}
InEW(b) == b \in {"eq-180", "in-180-90", "eq-90", "in-90-0", "negzero", "zero", "in0-90", "eq90", "in90-180", "eq180"}
InNS(b) == b \in {"eq-90", "in-90-0", "negzero", "zero", "in0-90", "eq90"}
NonNegative(b) == b \in {"zero", "in0-90", "eq90", "in90-180", "eq180", "gt180"}
Negative(b)    == b \in {"lt-180", "eq-180", "in-180-90", "eq-90", "in-90-0", "ninf"}

F(none, empty, blank, int, float, bucket, time, yd, uri, wf) ==
  [none |-> none, empty |-> empty, blank |-> blank, int |-> int, float |-> float, bucket |-> bucket,
   time |-> time, yeardate |-> yd, uri |-> uri, wellformed |-> wf]

NumericBuckets == Buckets \ {"nan", "pinf", "ninf", "na"}
IntBuckets == NumericBuckets \ {"negzero"}

(* class name -> facts.  Numeric classes carry their bucket in the name: INT:<bucket> etc. *)
Facts(c) ==
  CASE c = "NONE"   -> F(TRUE,  FALSE, FALSE, "n", "n", "na", "n", "n", "n", TRUE)
    [] c = "EMPTY"  -> F(FALSE, TRUE,  FALSE, "n", "n", "na", "n", "n", "n", TRUE)
    [] c = "BLANK"  -> F(FALSE, FALSE, TRUE,  "n", "n", "na", "n", "n", "n", TRUE)      \* only spaces
    [] c = "TEXT"   -> F(FALSE, FALSE, FALSE, "n", "n", "na", "n", "n", "n", TRUE)      \* words, no digits or colons
    [] c = "UNICODE" -> F(FALSE, FALSE, FALSE, "n", "n", "na", "n", "n", "n", TRUE)     \* non-ASCII letters
    [] c = "SENTINEL" -> F(FALSE, FALSE, FALSE, "n", "n", "na", "n", "n", "n", TRUE)    \* words that spell a programming language's "nothing" or a truth value: None, null, N/A, true ... - text like any other
    [] c = "METATEXT" -> F(FALSE, FALSE, FALSE, "n", "n", "na", "n", "n", "n", TRUE)    \* text made of what message templates treat as markup: braces, percent signs, backslashes
    [] c = "SURROGATE" -> F(FALSE, FALSE, FALSE, "n", "n", "na", "n", "n", "n", FALSE)  \* lone surrogate: not encodable
    [] c = "INT4"   -> F(FALSE, FALSE, FALSE, "y", "y", "gt180", "u", "y", "n", TRUE)   \* 1000..9999: also a year
    [] c = "SCI"    -> F(FALSE, FALSE, FALSE, "n", "y", "in90-180", "n", "n", "n", TRUE)   \* 1e2, 1.5E2
    [] c = "NAN"    -> F(FALSE, FALSE, FALSE, "n", "u", "nan", "n", "n", "n", TRUE)
    [] c = "PINF"   -> F(FALSE, FALSE, FALSE, "n", "u", "pinf", "n", "n", "n", TRUE)
    [] c = "NINF"   -> F(FALSE, FALSE, FALSE, "n", "u", "ninf", "n", "n", "n", TRUE)
    [] c = "OVERFLOW"  -> F(FALSE, FALSE, FALSE, "n", "y", "gt180", "n", "n", "n", TRUE)   \* 1e999
    [] c = "UNDERFLOW" -> F(FALSE, FALSE, FALSE, "n", "y", "in0-90", "n", "n", "n", TRUE)  \* 1e-999
    [] c = "DIGITLIKE" -> F(FALSE, FALSE, FALSE, "n", "n", "na", "n", "n", "n", TRUE)     \* characters that look like digits to str.isdigit / isnumeric but that no number parser reads
    [] c = "TIME"     -> F(FALSE, FALSE, FALSE, "n", "n", "na", "y", "n", "n", TRUE)       \* HH:MM:SS[.f]
    [] c = "TIME_ZONED" -> F(FALSE, FALSE, FALSE, "n", "n", "na", "y", "n", "n", TRUE)     \* HH:MM:SS[.f] followed by Z or +-HH:MM (ISO 8601 zone designator)
    [] c = "BADTIME"  -> F(FALSE, FALSE, FALSE, "n", "n", "na", "n", "n", "n", TRUE)       \* 25:00:00, 12:60:00
    [] c = "DATE"     -> F(FALSE, FALSE, FALSE, "n", "n", "na", "n", "y", "n", TRUE)       \* YYYY-MM-DD, valid
    [] c = "BADDATE"  -> F(FALSE, FALSE, FALSE, "n", "n", "na", "n", "n", "n", TRUE)       \* 2021-02-30, 2020-13-01
    [] c = "URI"      -> F(FALSE, FALSE, FALSE, "n", "n", "na", "n", "n", "y", TRUE)       \* http/https/ftp with host
    [] c = "URI_FULL" -> F(FALSE, FALSE, FALSE, "n", "n", "na", "n", "n", "y", TRUE)       \* every RFC 3986 component: userinfo, port, IP-literal host, pct-encoding, query, fragment
    [] c = "URI_BADSCHEME" -> F(FALSE, FALSE, FALSE, "n", "n", "na", "n", "n", "n", TRUE)
    [] c = "URI_NOSCHEME"  -> F(FALSE, FALSE, FALSE, "n", "n", "na", "n", "n", "n", TRUE)
    [] c = "URI_NOHOST"    -> F(FALSE, FALSE, FALSE, "n", "n", "na", "n", "n", "n", TRUE)
    [] c = "URI_BRACKETS"  -> F(FALSE, FALSE, FALSE, "n", "n", "na", "n", "n", "u", TRUE)  \* unbalanced / ill-filled IP-literal brackets: which verdict is unspecified, a verdict there must be
    [] c = "URI_EXOTIC"    -> F(FALSE, FALSE, FALSE, "n", "n", "na", "n", "n", "u", TRUE)  \* userinfo, ports, IP literals, %-escapes, fragments, upper-case scheme
    [] c = "LENIENT_INT"   -> F(FALSE, FALSE, FALSE, "u", "u", "na", "u", "u", "n", TRUE)  \* +5, 007, 1_0, padded, non-ASCII digits
    [] c = "LENIENT_FLOAT" -> F(FALSE, FALSE, FALSE, "n", "u", "na", "u", "n", "n", TRUE)  \* .5, 5., padded, 1_0.5
    [] c = "LENIENT_TIME"  -> F(FALSE, FALSE, FALSE, "u", "u", "na", "u", "u", "n", TRUE)  \* 12:30, T12:30:00, 24:00:00
    [] c = "LENIENT_DATE"  -> F(FALSE, FALSE, FALSE, "u", "u", "na", "u", "u", "n", TRUE)  \* 2020-1-5
IntClass(b) == F(FALSE, FALSE, FALSE, "y", "y", b, "u", "u", "n", TRUE)     \* canonical integers that are not 4-digit years
DecClass(b) == F(FALSE, FALSE, FALSE, "n", "y", b, "u", "n", "n", TRUE)     \* canonical decimals ("12.5" is an ISO fractional hour for Python)
PlainClasses == {"NONE", "EMPTY", "BLANK", "TEXT", "UNICODE", "METATEXT", "SENTINEL", "SURROGATE", "INT4", "SCI", "NAN", "PINF", "NINF", "OVERFLOW",
                 "UNDERFLOW", "DIGITLIKE", "TIME", "TIME_ZONED", "BADTIME", "DATE", "BADDATE", "URI", "URI_FULL", "URI_BADSCHEME", "URI_NOSCHEME", "URI_NOHOST", "URI_EXOTIC", "URI_BRACKETS",
                 "LENIENT_INT", "LENIENT_FLOAT", "LENIENT_TIME", "LENIENT_DATE"}
(* a class is a record [cls, bucket]; bucket "" for plain classes *)
AllClasses == {[cls |-> c, bucket |-> ""] : c \in PlainClasses}
              \cup {[cls |-> "INT", bucket |-> b] : b \in IntBuckets \ {"gt180"}} \cup {[cls |-> "INT", bucket |-> "gt180"]}
              \cup {[cls |-> "DEC", bucket |-> b] : b \in NumericBuckets}
FactsOf(cc) == IF cc.cls = "INT" THEN IntClass(cc.bucket) ELSE IF cc.cls = "DEC" THEN DecClass(cc.bucket) ELSE Facts(cc.cls)

Tri(yes, no) == IF yes THEN "ACCEPT" ELSE IF no THEN "REJECT" ELSE "UNSPEC"
FromFact(x) == IF x = "y" THEN "ACCEPT" ELSE IF x = "n" THEN "REJECT" ELSE "UNSPEC"

Ranged(f, inrange(_)) ==                       \* the three ranged float kinds
  IF f.none THEN "ACCEPT"                      \* None passes every typed kind (only nonEmptyContent rejects it)
  ELSE IF f.float = "n" THEN "REJECT"
  ELSE IF f.bucket \in {"nan", "pinf", "ninf"} THEN "REJECT"     \* NaN / infinities are outside every range
  ELSE IF f.float = "u" \/ f.bucket = "na" THEN "UNSPEC"
  ELSE IF inrange(f.bucket) THEN "ACCEPT" ELSE "REJECT"

KindVerdict(kind, f, mixed, hasKids) ==
  IF ~f.wellformed THEN "UNSPEC" ELSE      \* a str with a lone surrogate is not a Unicode string: outside the quantifier
  CASE kind = "anyContent"      -> "ACCEPT"
    [] kind = "emptyContent"    -> Tri(f.none, ~f.none /\ ~f.empty)                    \* "": unspecified; space-only text is text (the importer keeps it): rejected
    [] kind = "nonEmptyContent" -> IF f.none \/ f.empty THEN (IF mixed /\ hasKids THEN "ACCEPT" ELSE "REJECT")
                                   ELSE IF f.blank THEN "UNSPEC" ELSE "ACCEPT"
    [] kind = "strContent"      -> IF f.wellformed THEN "ACCEPT" ELSE "UNSPEC"
    [] kind = "intContent"      -> IF f.none THEN "ACCEPT" ELSE FromFact(f.int)
    [] kind = "floatContent"    -> IF f.none THEN "ACCEPT" ELSE FromFact(f.float)
    [] kind = "floatRangeContent_EW" -> Ranged(f, InEW)
    [] kind = "floatRangeContent_NS" -> Ranged(f, InNS)
    [] kind = "floatContent_Nonnegative" ->
         IF f.none THEN "ACCEPT" ELSE IF f.float = "n" THEN "REJECT"
         ELSE IF f.bucket \in {"nan", "ninf"} THEN "REJECT"
         ELSE IF f.float = "u" \/ f.bucket \in {"na", "pinf", "negzero"} THEN "UNSPEC"
         ELSE IF NonNegative(f.bucket) THEN "ACCEPT" ELSE "REJECT"
    [] kind = "timeContent"     -> IF f.none THEN "ACCEPT" ELSE FromFact(f.time)
    [] kind = "yearDateContent" -> IF f.none THEN "ACCEPT" ELSE FromFact(f.yeardate)
    [] kind = "uriContent"      -> IF f.none THEN "ACCEPT" ELSE FromFact(f.uri)
    [] OTHER -> "UNSPEC"          \* a kind this table does not know: nothing is claimed (C10 reports unimplemented kinds)
KnownKinds == {"anyContent", "emptyContent", "nonEmptyContent", "strContent", "intContent", "floatContent", "floatRangeContent_EW",
               "floatRangeContent_NS", "floatContent_Nonnegative", "timeContent", "yearDateContent", "uriContent"}

Combine(S) == IF "REJECT" \in S THEN "REJECT" ELSE IF "UNSPEC" \in S THEN "UNSPEC" ELSE "ACCEPT"
(* kinds: Seq of kind names; enum: "none" = no enumeration, "in" = content is a listed value,
   "out" = content is not in the list *)
ContentVerdict(kinds, enum, cc, mixed, hasKids) ==
  Combine({KindVerdict(kinds[i], FactsOf(cc), mixed, hasKids) : i \in 1..Len(kinds)}
          \cup (IF enum = "out" THEN {"REJECT"} ELSE {"ACCEPT"}))
=============================================================================
