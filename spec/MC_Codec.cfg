SPECIFICATION Spec
INVARIANT RoundTrip
INVARIANT Stable
INVARIANT LegacyCarries
INVARIANT UpgradeLoads
INVARIANT Log
