SPECIFICATION Spec
CONSTANTS
  FeedForeign = FALSE
  Words = TRUE
  Budget = 400
VIEW DfaView
INVARIANT RankIndexOK
INVARIANT LogInsert
INVARIANT LogUnit
