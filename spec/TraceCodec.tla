------------------------------ MODULE TraceCodec ------------------------------
(***************************************************************************)
(* code -> spec for C06: recorded save / load / re-save events of both     *)
(* JSON codecs and of the bundled legacy converter, judged against         *)
(* Codec.tla.  States are flat projections with id atoms and ORDERED       *)
(* dict-valued fields; documents are the generic JSON encoding with atoms. *)
(***************************************************************************)
EXTENDS Codec, TLC, Json, IOUtils

Events == JsonDeserialize(IOEnv.TRACE_FILE)
VARIABLE l

Range(s) == {s[i] : i \in 1..Len(s)}
(* tree equality of the statement: dict-valued fields are compared as maps *)
RECURSIVE Canon(_)
Canon(T) == [T EXCEPT !.ns = Range(T.ns), !.attrs = Range(T.attrs), !.extras = Range(T.extras),
                      !.kids = [i \in 1..Len(T.kids) |-> Canon(T.kids[i])]]

Clauses(e) ==
  CASE e.op = "save"   -> IF e.doc = Ser(TreeOf(e.state, e.root)) THEN {} ELSE {"layout"}
    [] e.op = "load"   -> (IF Canon(TreeOf(e.state, e.root)) = Canon(De(e.doc)) THEN {} ELSE {"loaded-tree-differs"})
                          \cup (IF e.links THEN {} ELSE {"parent-links"}) \cup (IF e.registered THEN {} ELSE {"not-registered"})
    [] e.op = "resave" -> IF e.text1 = e.text2 THEN {} ELSE {"reserialisation-differs"}
    [] e.op = "save_legacy" -> IF e.doc = SerL(TreeOf(e.state, e.root)) THEN {} ELSE {"legacy-layout"}
    [] e.op = "load_legacy" -> (IF Canon(TreeOf(e.state, e.root)) = Canon(DeL(e.doc)) THEN {} ELSE {"legacy-loaded-tree-differs"})
                               \cup (IF e.links THEN {} ELSE {"parent-links"}) \cup (IF e.registered THEN {} ELSE {"not-registered"})
    [] e.op = "upgrade" -> IF e.docU = Upgrade(e.docL) THEN {} ELSE {"converter-output-differs"}
    [] e.op = "load_upgraded" -> IF Canon(TreeOf(e.state, e.root)) = Canon(LegacyView(TreeOf(e.orig, e.origRoot))) THEN {} ELSE {"upgraded-tree-differs"}

Judge(k) == LET c == Clauses(Events[k]) IN
            IF c = {} THEN TRUE ELSE PrintT(ToJson([k |-> "REJECT", event |-> k, clauses |-> c]))
Init == l = 0
Next == l < Len(Events) /\ Judge(l + 1) /\ l' = l + 1
TraceSpec == Init /\ [][Next]_l
AllConsumed == TLCGet("stats").diameter = Len(Events) + 1
=============================================================================
