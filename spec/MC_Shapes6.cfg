SPECIFICATION Spec
CONSTANTS
  MaxN = 6
  Names = {"a"}
INVARIANT EncodingOK
INVARIANT Log
