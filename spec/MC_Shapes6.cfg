SPECIFICATION Spec
CONSTANTS
  MaxN = 6
  Names = {"a"}
  Mode = "pairs"
INVARIANT EncodingOK
INVARIANT Log
