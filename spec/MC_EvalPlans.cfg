SPECIFICATION Spec
INVARIANT Log
