-------------------------------- MODULE Codec ---------------------------------
(***************************************************************************)
(* C06: the JSON codecs.  A tree is a nested record                        *)
(*   [id, name, ns, prefix, attrs, extras, content, tail, kids]            *)
(* where id/name/content/tail/prefix are text atoms (0 = None; equal atom  *)
(* <=> identical Python string), ns/attrs/extras are sequences of          *)
(* <<key atom, value atom>> in insertion order (the JSON text depends on   *)
(* it) and kids is a sequence of trees.                                    *)
(* A JSON document is a uniform record [t, a, s, l]:                       *)
(*   t = "a" data string (atom a), "k" fixed key (string s), "n" null,     *)
(*       "l" list l, "o" object = list of 2-lists [key, value]             *)
(*  Ser  : the current 8-slot layout (slot ORDER is part of the format)    *)
(*  SerL : the legacy 4-slot layout (id, attributes, content, children)    *)
(*  Upgrade : what the bundled converter must do to a legacy document      *)
(*  De / DeL : the inverse maps                                            *)
(***************************************************************************)
EXTENDS Naturals, Sequences, FiniteSets

JA(x) == [t |-> "a", a |-> x, s |-> "", l |-> <<>>]
JK(x) == [t |-> "k", a |-> 0, s |-> x,  l |-> <<>>]
JNull == [t |-> "n", a |-> 0, s |-> "", l |-> <<>>]
JL(x) == [t |-> "l", a |-> 0, s |-> "", l |-> x]
JO(x) == [t |-> "o", a |-> 0, s |-> "", l |-> x]
Opt(x) == IF x = 0 THEN JNull ELSE JA(x)
Pair(k, v) == JL(<<k, v>>)
Slot(key, v) == JO(<<Pair(JK(key), v)>>)                       \* {"key": v}
Dict(kvs) == JO([i \in 1..Len(kvs) |-> Pair(JA(kvs[i][1]), JA(kvs[i][2]))])

RECURSIVE Ser(_)
Ser(T) == JO(<<Pair(JA(T.name), JL(<<
            Slot("id", JA(T.id)), Slot("nsmap", Dict(T.ns)), Slot("prefix", Opt(T.prefix)),
            Slot("attributes", Dict(T.attrs)), Slot("extras", Dict(T.extras)),
            Slot("content", Opt(T.content)), Slot("tail", Opt(T.tail)),
            Slot("children", JL([i \in 1..Len(T.kids) |-> Ser(T.kids[i])])) >>)) >>)

RECURSIVE SerL(_)
SerL(T) == JO(<<Pair(JA(T.name), JL(<<
            Slot("id", JA(T.id)), Slot("attributes", Dict(T.attrs)), Slot("content", Opt(T.content)),
            Slot("children", JL([i \in 1..Len(T.kids) |-> SerL(T.kids[i])])) >>)) >>)

InsAt(s, i, x) == SubSeq(s, 1, i - 1) \o <<x>> \o SubSeq(s, i, Len(s))      \* x becomes element i (1-based)
RECURSIVE Upgrade(_)
Upgrade(doc) ==      \* insert nsmap {}, prefix null, extras {}, tail null so that the 8-slot layout results
  LET body == doc.l[1].l[2].l
      kids == body[4].l[1].l[2].l
      up   == <<body[1], body[2], body[3], Slot("children", JL([i \in 1..Len(kids) |-> Upgrade(kids[i])]))>>
      b1 == InsAt(up, 2, Slot("nsmap", JO(<<>>)))
      b2 == InsAt(b1, 3, Slot("prefix", JNull))
      b3 == InsAt(b2, 5, Slot("extras", JO(<<>>)))
      b4 == InsAt(b3, 7, Slot("tail", JNull))
  IN JO(<<Pair(doc.l[1].l[1], JL(b4))>>)

Val(slot) == slot.l[1].l[2]
UnOpt(j) == IF j.t = "n" THEN 0 ELSE j.a
UnDict(j) == [i \in 1..Len(j.l) |-> <<j.l[i].l[1].a, j.l[i].l[2].a>>]
RECURSIVE De(_)
De(doc) == LET b == doc.l[1].l[2].l IN
  [name |-> doc.l[1].l[1].a, id |-> Val(b[1]).a, ns |-> UnDict(Val(b[2])), prefix |-> UnOpt(Val(b[3])),
   attrs |-> UnDict(Val(b[4])), extras |-> UnDict(Val(b[5])), content |-> UnOpt(Val(b[6])), tail |-> UnOpt(Val(b[7])),
   kids |-> [i \in 1..Len(Val(b[8]).l) |-> De(Val(b[8]).l[i])]]
RECURSIVE DeL(_)
DeL(doc) == LET b == doc.l[1].l[2].l IN
  [name |-> doc.l[1].l[1].a, id |-> Val(b[1]).a, ns |-> <<>>, prefix |-> 0, attrs |-> UnDict(Val(b[2])), extras |-> <<>>,
   content |-> UnOpt(Val(b[3])), tail |-> 0, kids |-> [i \in 1..Len(Val(b[4]).l) |-> DeL(Val(b[4]).l[i])]]

(* the part of a tree the legacy codec carries *)
RECURSIVE LegacyView(_)
LegacyView(T) == [T EXCEPT !.ns = <<>>, !.prefix = 0, !.extras = <<>>, !.tail = 0,
                           !.kids = [i \in 1..Len(T.kids) |-> LegacyView(T.kids[i])]]

(* flat state (as projected by the harness) -> nested tree *)
RECURSIVE TreeOf(_, _)
TreeOf(S, n) == [id |-> S.id[n], name |-> S.name[n], ns |-> S.ns[n], prefix |-> S.prefix[n], attrs |-> S.attrs[n],
                 extras |-> S.extras[n], content |-> S.content[n], tail |-> S.tail[n],
                 kids |-> [i \in 1..Len(S.kids[n]) |-> TreeOf(S, S.kids[n][i])]]
=============================================================================
