SPECIFICATION Spec
CONSTANT MaxLen = 5
INVARIANT StrictWithinGenerous
INVARIANT Log
