-------------------------------- MODULE Regex --------------------------------
(***************************************************************************)
(* Counted regular expressions over element names, as uniform records so   *)
(* that TLC can put them in sets (alternation is a SET: associativity,     *)
(* commutativity and idempotence for free).                                *)
(*                                                                         *)
(* Two independent semantics, cross-checked by TLC (MC_Words):             *)
(*   - Brzozowski derivatives with smart constructors (D, Nullable):       *)
(*     TLC's reachable graph of Feed is the rule's automaton;              *)
(*   - declarative membership by existential splitting (In).               *)
(* Repetition counts NON-EMPTY occurrences (the strict reading).  The      *)
(* lenient reading, where an occurrence that matches nothing also counts,  *)
(* is the strict reading after one bottom-up rewrite (Lenient).            *)
(***************************************************************************)
EXTENDS Naturals, Integers, Sequences, FiniteSets

INF == -1                                  \* unbounded maximum
Dec(hi) == IF hi = INF THEN INF ELSE hi - 1
Pred0(lo) == IF lo = 0 THEN 0 ELSE lo - 1

R(op, sym, seq, set, lo, hi) == [op |-> op, sym |-> sym, seq |-> seq, set |-> set, lo |-> lo, hi |-> hi]
Nil    == R("nil", "", <<>>, {}, 0, 0)      \* the empty language
Eps    == R("eps", "", <<>>, {}, 0, 0)      \* the empty word
Sym(a) == R("sym", a, <<>>, {}, 0, 0)

RECURSIVE FlatCat(_)
FlatCat(s) == IF s = <<>> THEN <<>>
              ELSE LET h == Head(s) IN
                   (IF h.op = "cat" THEN h.seq ELSE IF h.op = "eps" THEN <<>> ELSE <<h>>) \o FlatCat(Tail(s))
Cat(s) == LET f == FlatCat(s) IN
          IF \E i \in 1..Len(f) : f[i].op = "nil" THEN Nil
          ELSE IF f = <<>> THEN Eps ELSE IF Len(f) = 1 THEN f[1] ELSE R("cat", "", f, {}, 0, 0)
Alt(S) == LET f == UNION {IF x.op = "alt" THEN x.set ELSE IF x.op = "nil" THEN {} ELSE {x} : x \in S} IN
          IF f = {} THEN Nil ELSE IF Cardinality(f) = 1 THEN CHOOSE x \in f : TRUE ELSE R("alt", "", <<>>, f, 0, 0)
(* lo..hi non-empty occurrences of x *)
Rep(x, lo, hi) == IF hi # INF /\ lo > hi THEN Nil
                  ELSE IF hi = 0 \/ x.op \in {"nil", "eps"} THEN (IF lo = 0 THEN Eps ELSE Nil)
                  ELSE R("rep", "", <<x>>, {}, lo, hi)

RECURSIVE Nullable(_)
Nullable(r) == CASE r.op = "nil" -> FALSE
                 [] r.op = "eps" -> TRUE
                 [] r.op = "sym" -> FALSE
                 [] r.op = "cat" -> \A i \in 1..Len(r.seq) : Nullable(r.seq[i])
                 [] r.op = "alt" -> \E x \in r.set : Nullable(x)
                 [] r.op = "rep" -> r.lo = 0

RECURSIVE D(_, _)
D(a, r) == CASE r.op \in {"nil", "eps"} -> Nil
             [] r.op = "sym" -> IF r.sym = a THEN Eps ELSE Nil
             [] r.op = "cat" -> LET h == Head(r.seq)  t == Cat(Tail(r.seq)) IN
                                Alt({Cat(<<D(a, h), t>>)} \cup (IF Nullable(h) THEN {D(a, t)} ELSE {}))
             [] r.op = "alt" -> Alt({D(a, x) : x \in r.set})
             [] r.op = "rep" -> Cat(<<D(a, r.seq[1]), Rep(r.seq[1], Pred0(r.lo), Dec(r.hi))>>)

(* declarative membership, sharing nothing with D *)
RECURSIVE In(_, _), InCat(_, _), InRep(_, _, _, _)
In(r, w) == CASE r.op = "nil" -> FALSE
              [] r.op = "eps" -> w = <<>>
              [] r.op = "sym" -> w = <<r.sym>>
              [] r.op = "cat" -> InCat(r.seq, w)
              [] r.op = "alt" -> \E x \in r.set : In(x, w)
              [] r.op = "rep" -> InRep(r.seq[1], r.lo, r.hi, w)
InCat(s, w) == IF s = <<>> THEN w = <<>>
               ELSE \E k \in 0..Len(w) : In(Head(s), SubSeq(w, 1, k)) /\ InCat(Tail(s), SubSeq(w, k+1, Len(w)))
InRep(x, lo, hi, w) == IF w = <<>> THEN lo = 0
                       ELSE hi # 0 /\ \E k \in 1..Len(w) :
                              In(x, SubSeq(w, 1, k)) /\ InRep(x, Pred0(lo), Dec(hi), SubSeq(w, k+1, Len(w)))

(* lenient reading: an occurrence matching nothing counts, i.e. the minimum is waived where
   the body is nullable *)
RECURSIVE Lenient(_)
Lenient(r) == CASE r.op = "cat" -> Cat([i \in 1..Len(r.seq) |-> Lenient(r.seq[i])])
                [] r.op = "alt" -> Alt({Lenient(x) : x \in r.set})
                [] r.op = "rep" -> LET y == Lenient(r.seq[1]) IN Rep(y, IF Nullable(y) THEN 0 ELSE r.lo, r.hi)
                [] OTHER -> r

RECURSIVE Alphabet(_)
Alphabet(r) == CASE r.op = "sym" -> {r.sym}
                 [] r.op = "cat" -> UNION {Alphabet(r.seq[i]) : i \in 1..Len(r.seq)}
                 [] r.op = "alt" -> UNION {Alphabet(x) : x \in r.set}
                 [] r.op = "rep" -> Alphabet(r.seq[1])
                 [] OTHER -> {}

(* Satisfiable(r, ok): some word over the names in ok is in the strict language; MinWord gives one *)
RECURSIVE NonEmptyLang(_, _), NonEmptyNE(_, _)
NonEmptyLang(r, ok) == CASE r.op = "nil" -> FALSE
                         [] r.op = "eps" -> TRUE
                         [] r.op = "sym" -> r.sym \in ok
                         [] r.op = "cat" -> \A i \in 1..Len(r.seq) : NonEmptyLang(r.seq[i], ok)
                         [] r.op = "alt" -> \E x \in r.set : NonEmptyLang(x, ok)
                         [] r.op = "rep" -> r.lo = 0 \/ NonEmptyNE(r.seq[1], ok)
(* some NON-EMPTY word over ok *)
NonEmptyNE(r, ok) == CASE r.op \in {"nil", "eps"} -> FALSE
                       [] r.op = "sym" -> r.sym \in ok
                       [] r.op = "cat" -> (\A i \in 1..Len(r.seq) : NonEmptyLang(r.seq[i], ok))
                                          /\ (\E i \in 1..Len(r.seq) : NonEmptyNE(r.seq[i], ok))
                       [] r.op = "alt" -> \E x \in r.set : NonEmptyNE(x, ok)
                       [] r.op = "rep" -> NonEmptyNE(r.seq[1], ok)
RECURSIVE MinWord(_, _), MinWordNE(_, _), Times(_, _)
Times(w, k) == IF k = 0 THEN <<>> ELSE w \o Times(w, k - 1)
Shortest(S) == CHOOSE w \in S : \A v \in S : Len(w) <= Len(v)
RECURSIVE CatWords(_, _)
CatWords(s, ok) == IF s = <<>> THEN <<>> ELSE MinWord(Head(s), ok) \o CatWords(Tail(s), ok)
MinWord(r, ok) ==      \* a shortest word of the strict language over ok (precondition NonEmptyLang)
  CASE r.op = "eps" -> <<>>
    [] r.op = "sym" -> <<r.sym>>
    [] r.op = "cat" -> CatWords(r.seq, ok)
    [] r.op = "alt" -> Shortest({MinWord(x, ok) : x \in {y \in r.set : NonEmptyLang(y, ok)}})
    [] r.op = "rep" -> IF r.lo = 0 THEN <<>> ELSE Times(MinWordNE(r.seq[1], ok), r.lo)
MinWordNE(r, ok) ==    \* a shortest non-empty word (precondition NonEmptyNE)
  CASE r.op = "sym" -> <<r.sym>>
    [] r.op = "cat" -> LET base == CatWords(r.seq, ok) IN
                       IF base # <<>> THEN base
                       ELSE Shortest({MinWordNE(r.seq[i], ok) : i \in {j \in 1..Len(r.seq) : NonEmptyNE(r.seq[j], ok)}})
    [] r.op = "alt" -> Shortest({MinWordNE(x, ok) : x \in {y \in r.set : NonEmptyNE(y, ok)}})
    [] r.op = "rep" -> MinWordNE(r.seq[1], ok)

(* three-valued verdict of a child-name sequence under a rule's content model *)
Verdict(strict, lenient, w) == IF In(strict, w) THEN "ACCEPT" ELSE IF ~In(lenient, w) THEN "REJECT" ELSE "UNSPEC"
=============================================================================
