SPECIFICATION Spec
CONSTANTS
  MaxN = 4
  NameSet = {"a"}
  Prefixes = {}
  Uris = {}
  Texts = {}
  Keys = {}
  MaxLevel = 99
  NameVectors <- NoVectors
  InitMode = "none"
  LogFields = {"name", "kids", "store"}
  Ops = {"create", "import", "copy", "add_child", "remove_child", "replace_child", "replace_delete", "delete"}
VIEW StateView
INVARIANT TypeOK
INVARIANT ForestOK
PROPERTY RegistryStep
PROPERTY CopyOK
ACTION_CONSTRAINT LogTransition
