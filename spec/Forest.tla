------------------------------- MODULE Forest -------------------------------
(***************************************************************************)
(* Pure operators on the abstract state of a metapype node forest.         *)
(*                                                                         *)
(* A state S is a record of sequences indexed by node id (1..Size(S)):     *)
(*   name[n]   element name (string)                                       *)
(*   kids[n]   ordered child list, Seq(id)                                 *)
(*   ns[n]     namespace bindings seen on n: a set of <<prefix, uri>>      *)
(*   content[n], tail[n]   text atoms (0 = None; equal atom <=> identical  *)
(*             Python string)                                              *)
(*   prefix[n] string ("~" = None)                                         *)
(*   attrs[n], extras[n]   Seq(<<key, value-atom>>) in insertion order     *)
(*   store     set of ids retrievable from the process-wide registry       *)
(* Ids are handed out in creation order.  The stored parent link is NOT a  *)
(* state component: for a listed child it is determined by the lister      *)
(* (invariant ParentLinkOK, checked on the implementation), for an         *)
(* unlisted node the code leaves it stale and nothing is claimed.          *)
(* Dict aliasing is hidden implementation state and deliberately absent.   *)
(***************************************************************************)
EXTENDS Naturals, Integers, Sequences, FiniteSets

NULL  == 0          \* "no node" / None for ids and text atoms
NOSTR == "~"        \* None for string-valued fields
NOIDX == -1         \* None for index-valued results

Size(S)  == Len(S.kids)
NodesOf(S) == 1..Size(S)

----------------------------------------------------------------------------
(* sequence helpers; 1-based positions, Python indexes are 0-based *)
Range(s)      == {s[i] : i \in 1..Len(s)}
Has(s, x)     == \E i \in 1..Len(s) : s[i] = x
Pos(s, x)     == CHOOSE i \in 1..Len(s) : s[i] = x /\ \A j \in 1..(i-1) : s[j] # x
DelAt(s, i)   == SubSeq(s, 1, i-1) \o SubSeq(s, i+1, Len(s))
InsAt0(s, i, x) == SubSeq(s, 1, i) \o <<x>> \o SubSeq(s, i+1, Len(s))  \* list.insert(i, x), 0 <= i <= Len(s)
Swap(s, i, j) == [s EXCEPT ![i] = s[j], ![j] = s[i]]
Filter(s, T(_)) == SelectSeq(s, T)
RECURSIVE Flat(_)
Flat(ss) == IF ss = <<>> THEN <<>> ELSE Head(ss) \o Flat(Tail(ss))

----------------------------------------------------------------------------
(* tree structure *)
Listed(K, c) == \E p \in DOMAIN K : Has(K[p], c)
ParOf(K, c)  == IF Listed(K, c) THEN CHOOSE p \in DOMAIN K : Has(K[p], c) ELSE NULL

RECURSIVE PreOrder(_, _), PreOrderAll(_, _)
PreOrder(K, n)    == <<n>> \o PreOrderAll(K, K[n])
PreOrderAll(K, s) == IF s = <<>> THEN <<>> ELSE PreOrder(K, Head(s)) \o PreOrderAll(K, Tail(s))
Desc(K, n)        == Range(PreOrder(K, n))          \* n and everything below it
ProperDesc(K, n)  == Desc(K, n) \ {n}

RECURSIVE AncestrySeq(_, _)
AncestrySeq(K, n) == IF ParOf(K, n) = NULL THEN <<n>> ELSE Append(AncestrySeq(K, ParOf(K, n)), n)

(* the usage constraint of C09: a node sits in at most one child list, no cycles *)
CanAttach(K, p, c) == ~Listed(K, c) /\ p \notin Desc(K, c)

(* structural invariants of the model itself *)
NoSharing(K) == LET all == Flat(K) IN Cardinality(Range(all)) = Len(all)     \* no node is listed twice anywhere
RECURSIVE ReachesSelf(_, _, _)
ReachesSelf(K, n, fuel) == IF fuel = 0 THEN TRUE
                           ELSE \E i \in 1..Len(K[n]) : ReachesSelf(K, K[n][i], fuel - 1)
Acyclic(K) == \A n \in DOMAIN K : ~ReachesSelf(K, n, Len(K) + 1)   \* no downward walk of length > #nodes

----------------------------------------------------------------------------
(* edits on the child lists: each returns the new K (or a record with the result) *)
(* list.insert positions as Python has them: NOIDX (-1 here) = append; i >= 0 clamps at the end; a NEGATIVE Python index j is
   logged as i = j - 1 (so -2 is Python's -1) and counts from the end, clamping at the front *)
PyPos(len, i) == IF i = NOIDX THEN len
                 ELSE IF i <= -2 THEN (IF len + i + 1 < 0 THEN 0 ELSE len + i + 1)
                 ELSE IF i > len THEN len ELSE i
AddChildK(K, p, c, i)    == [K EXCEPT ![p] = InsAt0(@, PyPos(Len(@), i), c)]
RemoveChildK(K, p, c)    == [K EXCEPT ![p] = DelAt(@, Pos(@, c))]
RemoveChildrenK(K, p)    == [K EXCEPT ![p] = <<>>]
ReplaceChildK(K, p, o, n) == [K EXCEPT ![p] = [@ EXCEPT ![Pos(@, o)] = n]]

(* shift: nearest same-named sibling (sib) or adjacent position; never fails at an edge *)
NearestSib(s, nm, i, dir) ==
  LET cand == IF dir = "R" THEN {j \in (i+1)..Len(s) : nm[s[j]] = nm[s[i]]}
                           ELSE {j \in 1..(i-1)      : nm[s[j]] = nm[s[i]]}
  IN IF cand = {} THEN i
     ELSE IF dir = "R" THEN CHOOSE j \in cand : \A k \in cand : j <= k
                       ELSE CHOOSE j \in cand : \A k \in cand : j >= k
ShiftTarget(s, nm, i, dir, sib) ==
  IF sib THEN NearestSib(s, nm, i, dir)
  ELSE IF dir = "R" THEN (IF i < Len(s) THEN i + 1 ELSE i)
                    ELSE (IF i > 1 THEN i - 1 ELSE i)
ShiftK(K, nm, p, c, dir, sib) ==
  LET s == K[p]  i == Pos(s, c)  j == ShiftTarget(s, nm, i, dir, sib)
  IN [kids |-> [K EXCEPT ![p] = Swap(s, i, j)], ret |-> j - 1]

----------------------------------------------------------------------------
(* queries *)
FirstOr(s, d) == IF s = <<>> THEN d ELSE s[1]
FindAllChildren(K, nm, n, x)    == SelectSeq(K[n], LAMBDA c : nm[c] = x)
FindChild(K, nm, n, x)          == FirstOr(FindAllChildren(K, nm, n, x), NULL)
FindAllDescendants(K, nm, n, x) == SelectSeq(Tail(PreOrder(K, n)), LAMBDA c : nm[c] = x)   \* document order
FindDescendant(K, nm, n, x)     == FirstOr(FindAllDescendants(K, nm, n, x), NULL)
RECURSIVE SingleDown(_, _, _, _)
SingleDown(K, nm, n, path) == IF path = <<>> THEN n
                              ELSE LET c == FindChild(K, nm, n, Head(path))
                                   IN IF c = NULL THEN NULL ELSE SingleDown(K, nm, c, Tail(path))
(* first-child descent exactly as documented: "the userId of the FIRST creator", not the
   first complete path; the empty path gives None *)
SingleByPath(K, nm, n, path) == IF path = <<>> THEN NULL ELSE SingleDown(K, nm, n, path)
RECURSIVE AllDown(_, _, _, _)
AllDown(K, nm, s, path) == IF path = <<>> THEN s
                           ELSE AllDown(K, nm, Flat([i \in 1..Len(s) |-> FindAllChildren(K, nm, s[i], Head(path))]), Tail(path))
AllByPath(K, nm, n, path) == IF path = <<>> THEN <<>> ELSE AllDown(K, nm, <<n>>, path)
ChildIndex(K, p, c) == IF Has(K[p], c) THEN Pos(K[p], c) - 1 ELSE NOIDX

----------------------------------------------------------------------------
(* namespace maps as sets of <<prefix, uri>> pairs (graphs of partial functions) *)
NsDom(m)       == {pr[1] : pr \in m}
NsGet(m, q)    == (CHOOSE pr \in m : pr[1] = q)[2]
NsSet(m, q, u) == {pr \in m : pr[1] # q} \cup {<<q, u>>}
NsDel(m, q)    == {pr \in m : pr[1] # q}
NsFunctional(m) == \A a, b \in m : a[1] = b[1] => a = b
NsMerge(pm, cm) == cm \cup {pr \in pm : pr[1] \notin NsDom(cm)}      \* child's own bindings win

OnSubtree(K, NS, n, F(_)) == [m \in DOMAIN NS |-> IF m \in Desc(K, n) THEN F(NS[m]) ELSE NS[m]]
AddNamespaceNS(K, NS, n, q, u) == OnSubtree(K, NS, n, LAMBDA m : NsSet(m, q, u))
RemoveNamespaceNS(K, NS, n, q) == OnSubtree(K, NS, n, LAMBDA m : NsDel(m, q))
(* What attaching c under p does to namespace maps.  JUDGED: c sees NsMerge(ns[p], ns[c]);
   nothing outside Desc(c) changes.
   MODELLED BUT NOT JUDGED (the property is silent): the exact maps below c -- the code pushes
   each binding that c lacked down the whole subtree, overriding what a descendant had. *)
AttachNS(K, NS, p, c) ==
  LET missing == {pr \in NS[p] : pr[1] \notin NsDom(NS[c])}
      mq      == NsDom(missing)
  IN [m \in DOMAIN NS |-> IF m \in Desc(K, c) THEN {pr \in NS[m] : pr[1] \notin mq} \cup missing ELSE NS[m]]

=============================================================================
