SPECIFICATION Spec
INVARIANT LogState
INVARIANT LogUnit
