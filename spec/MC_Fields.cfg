SPECIFICATION Spec
CONSTANT Focus = "fields"
INVARIANT OracleOK
INVARIANT Log
