SPECIFICATION Spec
INVARIANT OracleOK
INVARIANT Log
