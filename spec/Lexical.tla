------------------------------- MODULE Lexical --------------------------------
(***************************************************************************)
(* C02, lexical layer for the integer and float content kinds, over the    *)
(* tiny alphabet {-, +, 0, 1, 8, 9, ., e}: every string up to MaxLen is    *)
(* classified by two grammars per type                                     *)
(*   strict   - the canonical lexical forms (always accepted)              *)
(*   generous - everything a lenient parser could read as the type         *)
(*              (sign +, leading zeros, ".5", "5.", "1e+2"); strings       *)
(*              outside it are clearly not of the type (always rejected)   *)
(* and canonical decimals without exponent get their exact value bucket    *)
(* (scaled integers) for the ranged kinds.  TLC enumerates the strings and *)
(* logs the verdicts; the harness runs each through validate.node.         *)
(***************************************************************************)
EXTENDS Naturals, Integers, Sequences, FiniteSets, TLC, Json

CONSTANT MaxLen
VARIABLE s
Sigma == {"-", "+", "0", "1", "8", "9", ".", "e"}
Digits == {"0", "1", "8", "9"}
DigitVal(c) == CASE c = "0" -> 0 [] c = "1" -> 1 [] c = "8" -> 8 [] c = "9" -> 9

AllDigits(x) == x # <<>> /\ \A i \in 1..Len(x) : x[i] \in Digits
CanonNat(x)  == AllDigits(x) /\ (Len(x) = 1 \/ x[1] # "0")                \* no leading zeros
DropSign(x, signs) == IF x # <<>> /\ x[1] \in signs THEN Tail(x) ELSE x
StrictInt(x)   == CanonNat(DropSign(x, {"-"})) /\ x # <<"-", "0">>          \* "-0" is a lenient spelling
GenerousInt(x) == AllDigits(DropSign(x, {"-", "+"}))

IndexOf(x, c) == IF \E i \in 1..Len(x) : x[i] = c THEN CHOOSE i \in 1..Len(x) : x[i] = c /\ \A j \in 1..(i-1) : x[j] # c ELSE 0
Before(x, i) == SubSeq(x, 1, i - 1)
After(x, i)  == SubSeq(x, i + 1, Len(x))
(* mantissa / exponent split at the first e *)
Mant(x) == IF IndexOf(x, "e") = 0 THEN x ELSE Before(x, IndexOf(x, "e"))
HasExp(x) == IndexOf(x, "e") # 0
Exp(x)  == After(x, IndexOf(x, "e"))
StrictMant(m) == LET u == DropSign(m, {"-"}) d == IndexOf(u, ".") IN
                 IF d = 0 THEN CanonNat(u) ELSE CanonNat(Before(u, d)) /\ AllDigits(After(u, d))
GenerousMant(m) == LET u == DropSign(m, {"-", "+"}) d == IndexOf(u, ".") IN
                   IF d = 0 THEN AllDigits(u)
                   ELSE LET a == Before(u, d) b == After(u, d) IN
                        (a = <<>> \/ AllDigits(a)) /\ (b = <<>> \/ AllDigits(b)) /\ ~(a = <<>> /\ b = <<>>)
StrictFloat(x)   == StrictMant(Mant(x)) /\ (HasExp(x) => CanonNat(DropSign(Exp(x), {"-"})))
GenerousFloat(x) == GenerousMant(Mant(x)) /\ (HasExp(x) => AllDigits(DropSign(Exp(x), {"-", "+"})))

Tri(strict, generous) == IF strict THEN "ACCEPT" ELSE IF ~generous THEN "REJECT" ELSE "UNSPEC"
IntVerdict(x)   == Tri(StrictInt(x), GenerousInt(x))
FloatVerdict(x) == Tri(StrictFloat(x), GenerousFloat(x))

(* exact comparison of a canonical decimal without exponent against a bound: value * 10^k as an integer *)
RECURSIVE NatOf(_)
NatOf(x) == IF x = <<>> THEN 0 ELSE 10 * NatOf(SubSeq(x, 1, Len(x) - 1)) + DigitVal(x[Len(x)])
RECURSIVE P10(_)
P10(k) == IF k = 0 THEN 1 ELSE 10 * P10(k - 1)
Plain(x) == StrictFloat(x) /\ ~HasExp(x)
Scaled(x) == LET neg == x[1] = "-"  u == DropSign(x, {"-"})  d == IndexOf(u, ".")
                 digs == IF d = 0 THEN u ELSE Before(u, d) \o After(u, d)
                 k == IF d = 0 THEN 0 ELSE Len(u) - d
             IN [neg |-> neg, mag |-> NatOf(digs), k |-> k]             \* value = (-1)^neg * mag / 10^k
InRange(x, bound) == LET v == Scaled(x) IN v.mag <= bound * P10(v.k)        \* |value| <= bound
RangeVerdict(x, bound) == IF ~GenerousFloat(x) THEN "REJECT"
                          ELSE IF Plain(x) THEN (IF InRange(x, bound) THEN "ACCEPT" ELSE "REJECT")
                          ELSE "UNSPEC"
NonNegVerdict(x) == IF ~GenerousFloat(x) THEN "REJECT"
                    ELSE IF Plain(x) THEN (IF x[1] # "-" THEN "ACCEPT" ELSE IF Scaled(x).mag = 0 THEN "UNSPEC" ELSE "REJECT")
                    ELSE "UNSPEC"

Init == s = <<>>
Next == Len(s) < MaxLen /\ \E c \in Sigma : s' = Append(s, c)
Spec == Init /\ [][Next]_s

StrictWithinGenerous == (StrictInt(s) => GenerousInt(s)) /\ (StrictFloat(s) => GenerousFloat(s)) /\ (StrictInt(s) => StrictFloat(s))
Log == s # <<>> => PrintT(ToJson([k |-> "L", s |-> s, int |-> IntVerdict(s), float |-> FloatVerdict(s),
                                  ew |-> RangeVerdict(s, 180), ns |-> RangeVerdict(s, 90), nonneg |-> NonNegVerdict(s)]))
=============================================================================
