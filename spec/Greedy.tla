-------------------------------- MODULE Greedy --------------------------------
(***************************************************************************)
(* A transcription of the algorithm metapype actually uses to validate a   *)
(* child sequence (Rule._validate_children and its helpers in rule.py):    *)
(* a cursor over the child names, nested greedy matchers, and "raise or    *)
(* append".  It describes THIS algorithm, not the property:                *)
(*   GreedyErrs(u, w)  - the error codes collecting mode appends, in order *)
(*                       (fail-fast raises for the first of them)          *)
(* MC_Greedy checks, on the real rule table and every word up to the       *)
(* budget, the bounded theorem that the greedy matcher decides the         *)
(* regular language of Regex.tla wherever the verdict is specified:        *)
(*   ACCEPT => no error;  REJECT => some error, all of the child family.   *)
(* The exact predicted code sequence is compared with the code as          *)
(* information (a different but equally correct reporting order is not a   *)
(* violation of C01).                                                      *)
(***************************************************************************)
EXTENDS MC_Dfa

GInf(j) == j.t = "n"
GMod(j) == IF j.l[1].t = "s" THEN "child"                                    \* _is_rule_child
           ELSE IF j.l[Len(j.l)].t = "l" THEN "sequence"                       \* _is_sequence
           ELSE IF Len(j.l) >= 3 /\ j.l[1].t = "l" /\ j.l[Len(j.l) - 1].t = "i" THEN "choice" ELSE "unknown"
RECURSIVE GNames(_)
GNames(j) == IF j.l = <<>> THEN {}
             ELSE IF GMod(j) = "child" THEN {j.l[1].s}
             ELSE IF GMod(j) = "choice" THEN UNION {GNames(j.l[k]) : k \in 1..(Len(j.l) - 2)}
             ELSE UNION {GNames(j.l[k]) : k \in 1..Len(j.l)}

Err(st, code) == [st EXCEPT !.errs = Append(@, code)]
At(v, st) == v[st.i + 1]                   \* the child name under the cursor (st.i = number consumed)
More(v, st) == st.i < Len(v)

(* _validate_rule_child(rule_child, limit_max) *)
RECURSIVE GChildLoop(_, _, _, _, _)
GChildLoop(j, limit, v, occ, st) ==
  IF More(v, st) /\ At(v, st) = j.l[1].s
  THEN LET o2 == occ + 1  s2 == [st EXCEPT !.i = @ + 1] IN
       IF limit /\ ~GInf(j.l[3]) /\ o2 = j.l[3].i THEN [st |-> s2, done |-> TRUE]
       ELSE GChildLoop(j, limit, v, o2, IF ~GInf(j.l[3]) /\ o2 > j.l[3].i THEN Err(s2, "MAX_OCCURRENCE_EXCEEDED") ELSE s2)
  ELSE [st |-> IF occ < j.l[2].i THEN Err(st, "MIN_OCCURRENCE_UNMET") ELSE st, done |-> FALSE]
GChild(j, limit, v, st) == GChildLoop(j, limit, v, 0, st).st

RECURSIVE GSeq(_, _, _, _, _), GChoice(_, _, _, _, _), GAlts(_, _, _, _, _, _), GWhile(_, _, _, _, _, _)
(* _validate_sequence *)
GSeq(j, mixed, v, st, fuel) ==
  LET RECURSIVE go(_, _)
      go(k, s) == IF k > Len(j.l) THEN s
                  ELSE go(k + 1, IF GMod(j.l[k]) = "choice" THEN GChoice(j.l[k], mixed, v, s, fuel) ELSE GChild(j.l[k], FALSE, v, s))
  IN go(1, st)
(* one pass of the for-loop over the alternatives; acc = [st, occ] *)
GAlts(j, mixed, v, k, acc, fuel) ==
  IF k > Len(j.l) - 2 \/ ~More(v, acc.st) THEN acc
  ELSE LET alt == j.l[k]  m == GMod(alt)  a == At(v, acc.st) IN
       GAlts(j, mixed, v, k + 1,
             IF m = "sequence" /\ a \in GNames(alt) THEN [st |-> GSeq(alt, mixed, v, acc.st, fuel), occ |-> acc.occ + 1]
             ELSE IF m = "choice" /\ a \in GNames(alt) THEN [st |-> GChoice(alt, mixed, v, acc.st, fuel), occ |-> acc.occ + 1]
             ELSE IF m = "child" /\ a = alt.l[1].s THEN [st |-> GChild(alt, TRUE, v, acc.st), occ |-> acc.occ + 1]
             ELSE acc, fuel)
GWhile(j, mixed, v, acc, names, fuel) ==
  IF fuel = 0 \/ ~More(v, acc.st) \/ At(v, acc.st) \notin names THEN acc
  ELSE GWhile(j, mixed, v, GAlts(j, mixed, v, 1, acc, fuel - 1), names, fuel - 1)
(* _validate_choice *)
GChoice(j, mixed, v, st, fuel) ==
  LET n == Len(j.l)
      acc == GWhile(j, mixed, v, [st |-> st, occ |-> 0], GNames(j), fuel)
      s1 == IF ~GInf(j.l[n]) /\ acc.occ > j.l[n].i THEN Err(acc.st, "MAX_CHOICE_EXCEEDED") ELSE acc.st
  IN IF acc.occ < j.l[n - 1].i /\ ~mixed THEN Err(s1, "MIN_CHOICE_UNMET") ELSE s1

(* _validate_children for a rule (not for the element named metadata) *)
GreedyErrs(u, v) ==
  LET sec == RulesJson[u].l[2]
      mixed == u \in MixedRules
      names == GNames(sec)
      st0 == [i |-> 0, errs |-> SelectSeq([k \in 1..Len(v) |-> IF v[k] \in names THEN "" ELSE "CHILD_NOT_ALLOWED"], LAMBDA c : c # "")]
      st1 == IF sec.l = <<>> THEN st0
             ELSE IF GMod(sec) = "sequence" THEN GSeq(sec, mixed, v, st0, 2 * Len(v) + 4) ELSE GChoice(sec, mixed, v, st0, 2 * Len(v) + 4)
  IN IF st1.i # Len(v) THEN Append(st1.errs, "CHILD_NOT_ALLOWED") ELSE st1.errs

ChildFamily == {"CHILD_NOT_ALLOWED", "MIN_OCCURRENCE_UNMET", "MAX_OCCURRENCE_EXCEEDED", "MIN_CHOICE_UNMET", "MAX_CHOICE_EXCEEDED"}
GWord == [k \in 1..Len(w) |-> IF w[k] = FOREIGN THEN "~foreign" ELSE w[k]]
GreedyDecidesLanguage ==
  unit # "@metadata" =>
    LET e == GreedyErrs(unit, GWord)  vd == Out(sres, lres) IN
    /\ (vd = "ACCEPT" => e = <<>>)
    /\ (vd = "REJECT" => e # <<>> /\ \A k \in 1..Len(e) : e[k] \in ChildFamily)
LogGreedy == unit # "@metadata" => PrintT(ToJson([k |-> "G", unit |-> unit, w |-> w, errs |-> GreedyErrs(unit, GWord), out |-> Out(sres, lres)]))
=============================================================================
