------------------------------- MODULE RuleJson -------------------------------
(***************************************************************************)
(* The rule table as data.  RuleTable.tla (generated at check time from    *)
(* /repo's working tree) holds rules.json verbatim in a generic, unjudging *)
(* encoding of JSON values; THIS module says what a well-formed rule is    *)
(* and what its three sections mean, independently of the predicates       *)
(* _is_rule_child / _is_sequence / _is_choice in rule.py:                  *)
(*   ["name", min, max]            one child, min..max times (max null =   *)
(*                                 unbounded)                              *)
(*   [spec, spec, ...]             a sequence: list whose items are lists  *)
(*   [spec, ..., spec, min, max]   a choice among the specs, min..max      *)
(*                                 occurrences                             *)
(***************************************************************************)
EXTENDS Regex, TLC

(* generic JSON: t in s(tring) i(nt) n(ull) b(ool) l(ist) o(bject); an object is the list of
   its [key, value] pairs (each pair a JSON list) in file order *)
JS(x) == [t |-> "s", s |-> x,  i |-> 0, l |-> <<>>]
JI(x) == [t |-> "i", s |-> "", i |-> x, l |-> <<>>]
JN    == [t |-> "n", s |-> "", i |-> 0, l |-> <<>>]
JB(x) == [t |-> "b", s |-> "", i |-> IF x THEN 1 ELSE 0, l |-> <<>>]
JL(x) == [t |-> "l", s |-> "", i |-> 0, l |-> x]
JO(x) == [t |-> "o", s |-> "", i |-> 0, l |-> x]

IsMax(j) == j.t = "n" \/ (j.t = "i" /\ j.i >= 0)
IsMin(j) == j.t = "i" /\ j.i >= 0
MaxOf(j) == IF j.t = "n" THEN INF ELSE j.i

IsChildSpec(j) == j.t = "l" /\ Len(j.l) = 3 /\ j.l[1].t = "s" /\ IsMin(j.l[2]) /\ IsMax(j.l[3])
IsSeqSpec(j)   == j.t = "l" /\ Len(j.l) >= 1 /\ \A k \in 1..Len(j.l) : j.l[k].t = "l"
IsChoiceSpec(j) == j.t = "l" /\ Len(j.l) >= 3 /\ IsMin(j.l[Len(j.l)-1]) /\ IsMax(j.l[Len(j.l)])
                   /\ \A k \in 1..(Len(j.l)-2) : j.l[k].t = "l"

(* well-formedness errors of a children spec, as a set of strings (empty = well-formed) *)
RECURSIVE ChildrenErrors(_)
ChildrenErrors(j) ==
  IF IsChildSpec(j) THEN (IF j.l[3].t = "i" /\ j.l[2].i > j.l[3].i THEN {"min>max:" \o j.l[1].s} ELSE {})
  ELSE IF IsChoiceSpec(j) THEN
         (IF j.l[Len(j.l)].t = "i" /\ j.l[Len(j.l)-1].i > j.l[Len(j.l)].i THEN {"choice-min>max"} ELSE {})
         \cup UNION {ChildrenErrors(j.l[k]) : k \in 1..(Len(j.l)-2)}
  ELSE IF IsSeqSpec(j) THEN UNION {ChildrenErrors(j.l[k]) : k \in 1..Len(j.l)}
  ELSE {"unparsable-children-spec"}

(* the content model a children spec denotes; mixed: choice minimums are waived *)
RECURSIVE ChildrenRegex(_, _)
ChildrenRegex(j, mixed) ==
  IF IsChildSpec(j) THEN Rep(Sym(j.l[1].s), j.l[2].i, MaxOf(j.l[3]))
  ELSE IF IsChoiceSpec(j) THEN
         Rep(Alt({ChildrenRegex(j.l[k], mixed) : k \in 1..(Len(j.l)-2)}),
             IF mixed THEN 0 ELSE j.l[Len(j.l)-1].i, MaxOf(j.l[Len(j.l)]))
  ELSE Cat([k \in 1..Len(j.l) |-> ChildrenRegex(j.l[k], mixed)])
SectionRegex(j, mixed) == IF j.t = "l" /\ j.l = <<>> THEN Eps ELSE ChildrenRegex(j, mixed)
SectionErrors(j) == IF j.t # "l" THEN {"children-section-not-a-list"}
                    ELSE IF j.l = <<>> THEN {} ELSE ChildrenErrors(j)

(* names in declaration order (for the insertion rank of C17) *)
RECURSIVE DeclOrder(_)
DeclOrder(j) ==
  IF j.t # "l" \/ j.l = <<>> THEN <<>>
  ELSE IF IsChildSpec(j) THEN <<j.l[1].s>>
  ELSE LET n == IF IsChoiceSpec(j) THEN Len(j.l) - 2 ELSE Len(j.l)
           RECURSIVE go(_)
           go(k) == IF k > n THEN <<>> ELSE DeclOrder(j.l[k]) \o go(k + 1)
       IN go(1)

(* attribute section: object name -> [required-flag, value, value, ...] *)
AttrErrors(j) == IF j.t # "o" THEN {"attributes-section-not-an-object"}
                 ELSE UNION {LET v == j.l[k].l[2] IN
                             IF v.t = "l" /\ Len(v.l) >= 1 /\ v.l[1].t = "b" /\ \A m \in 2..Len(v.l) : v.l[m].t = "s"
                             THEN {} ELSE {"attribute-spec-not-led-by-required-flag:" \o j.l[k].l[1].s} : k \in 1..Len(j.l)}
AttrNames(j)     == {j.l[k].l[1].s : k \in 1..Len(j.l)}
AttrSpec(j, a)   == (CHOOSE k \in 1..Len(j.l) : j.l[k].l[1].s = a)
AttrRequired(j, a) == j.l[AttrSpec(j, a)].l[2].l[1].i = 1
AttrValues(j, a)   == LET v == j.l[AttrSpec(j, a)].l[2].l IN {v[m].s : m \in 2..Len(v)}
AttrEnumerated(j, a) == Len(j.l[AttrSpec(j, a)].l[2].l) > 1

(* content section: object with content_rules (list of names) and optional content_enum *)
ObjGet(j, key) == LET ks == {k \in 1..Len(j.l) : j.l[k].l[1].s = key} IN
                  IF ks = {} THEN JN ELSE j.l[CHOOSE k \in ks : TRUE].l[2]
ContentKinds(j) == LET c == ObjGet(j, "content_rules") IN [k \in 1..Len(c.l) |-> c.l[k].s]
HasEnum(j)      == ObjGet(j, "content_enum").t = "l"
ContentEnum(j)  == LET c == ObjGet(j, "content_enum") IN {c.l[k].s : k \in 1..Len(c.l)}
ContentErrors(j, implemented) ==
  IF j.t # "o" \/ ObjGet(j, "content_rules").t # "l" THEN {"content-section-malformed"}
  ELSE {"unimplemented-content-rule:" \o ContentKinds(j)[k] : k \in {m \in 1..Len(ContentKinds(j)) : ContentKinds(j)[m] \notin implemented}}

(* a rule = [attributes, children, content] *)
RuleErrors(j, implemented) ==
  IF j.t # "l" \/ Len(j.l) # 3 THEN {"rule-is-not-a-3-list"}
  ELSE AttrErrors(j.l[1]) \cup SectionErrors(j.l[2]) \cup ContentErrors(j.l[3], implemented)
=============================================================================
