------------------------------ MODULE TraceText -------------------------------
(***************************************************************************)
(* code -> spec for C20: recorded calls of normalize() in text mode and in *)
(* xml mode, judged against Text.tla.  XML documents (input and output,    *)
(* as parsed by an independent non-namespace-aware parser) are trees       *)
(*   node = [n: name, a: Seq(<<attr name, value>>), c: Seq(item)]          *)
(*   item = [t: "e", e: node] | [t: "t", s: text]                          *)
(***************************************************************************)
EXTENDS Text, TLC, Json, IOUtils

Events == JsonDeserialize(IOEnv.TRACE_FILE)
VARIABLE l
Protected == {"markup", "literalLayout", "objectName", "attributeName", "para"}

TextClauses(e) ==
     (IF \E i \in 1..Len(e.out) : e.out[i] = NBSP THEN {"nbsp-in-result"} ELSE {})
  \cup (IF e.out # <<>> /\ (e.out[1] = SP \/ e.out[Len(e.out)] = SP) THEN {"leading-or-trailing-space"} ELSE {})
  \cup (IF \E i \in 1..(Len(e.out) - 1) : e.out[i] = SP /\ e.out[i+1] = SP THEN {"run-of-spaces"} ELSE {})
  \cup (IF Words(e.out) = Words(e.in) THEN {} ELSE {"words-changed"})
  \cup (IF e.out2 = e.out THEN {} ELSE {"not-idempotent"})

Elems(n) == SelectSeq(n.c, LAMBDA it : it.t = "e")
(* text segment before the k-th child element (k = #elements + 1: after the last); NONE if absent *)
RECURSIVE SegsOf(_, _)
SegsOf(items, cur) == IF items = <<>> THEN <<cur>>
                      ELSE IF Head(items).t = "t" THEN SegsOf(Tail(items), IF cur = NONE THEN Head(items).s ELSE cur \o Head(items).s)
                      ELSE <<cur>> \o SegsOf(Tail(items), NONE)
Segs(n) == SegsOf(n.c, NONE)

RECURSIVE NodeClauses(_, _, _)
NodeClauses(a, b, prot) ==
  IF a.n # b.n THEN {"element-name-changed"}
  ELSE IF Len(a.a) # Len(b.a) \/ \E i \in 1..Len(a.a) : a.a[i][1] # b.a[i][1] THEN {"attribute-names-or-order-changed"}
  ELSE LET p == prot \/ a.n \in Protected
           ea == Elems(a)  eb == Elems(b)  sa == Segs(a)  sb == Segs(b) IN
       (IF \A i \in 1..Len(a.a) : b.a[i][2] = NormalizeSpace(NoNbsp(a.a[i][2])) THEN {} ELSE {"attribute-value-not-normalised"})
       \cup (IF Len(ea) # Len(eb) THEN {"child-elements-changed"}
             ELSE UNION {NodeClauses(ea[i].e, eb[i].e, p) : i \in 1..Len(ea)}
                  \cup (IF p THEN (IF \A i \in 1..Len(sa) : IF sa[i] = NONE THEN Blankish(sb[i]) ELSE sb[i] = NoNbsp(sa[i])
                                   THEN {} ELSE {"protected-text-changed"})
                        ELSE (IF \A i \in 1..Len(sa) : SameModuloStrip(sb[i], IF sa[i] = NONE THEN NONE ELSE NormalizeSpace(NoNbsp(sa[i])))
                              THEN {} ELSE {"text-not-normalised"})))

XmlClauses(e) == IF ~e.wf THEN {"ill-formed-output"}
                 ELSE NodeClauses(e.din, e.dout, FALSE) \cup (IF e.t1 = e.t2 THEN {} ELSE {"not-idempotent"})

Clauses(e) == IF e.op = "normalize" THEN TextClauses(e) ELSE XmlClauses(e)
Judge(k) == LET c == Clauses(Events[k]) IN
            IF c = {} THEN TRUE ELSE PrintT(ToJson([k |-> "REJECT", event |-> k, clauses |-> c]))
Init == l = 0
Next == l < Len(Events) /\ Judge(l + 1) /\ l' = l + 1
TraceSpec == Init /\ [][Next]_l
AllConsumed == TLCGet("stats").diameter = Len(Events) + 1
=============================================================================
