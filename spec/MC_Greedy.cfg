SPECIFICATION Spec
CONSTANTS
  FeedForeign = TRUE
  Words = TRUE
  Budget = 3000
VIEW DfaView
INVARIANT GreedyDecidesLanguage
INVARIANT LogGreedy
