SPECIFICATION Spec
CONSTANTS
  MaxN = 11
  NameSet = {"a", "b"}
  Prefixes = {"x", "y"}
  Uris = {"u", "v"}
  Texts = {1, 2}
  Keys = {"k1", "k2"}
  MaxLevel = 4
  NameVectors <- NoVectors
  InitMode = "templates"
  LogFields = {"name", "kids", "ns", "content", "tail", "prefix", "attrs", "extras", "store"}
  Ops = {"copy", "add_child", "insert", "remove_child", "remove_children", "shift", "add_namespace", "remove_namespace",
         "set_content", "set_tail", "set_name", "set_prefix", "add_attribute", "remove_attribute", "add_extras"}
VIEW StateView
INVARIANT TypeOK
INVARIANT ForestOK
INVARIANT LogStateEq
PROPERTY CopyOK
PROPERTY RegistryStep
PROPERTY Frame
ACTION_CONSTRAINT LevelStep
ACTION_CONSTRAINT CopyFirst
ACTION_CONSTRAINT LogTransition
