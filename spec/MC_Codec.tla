------------------------------ MODULE MC_Codec -------------------------------
(***************************************************************************)
(* C06, design level: on every tree of <= 3 nodes built from 8 node        *)
(* variants (each field populated in some variant, attribute order         *)
(* varied) the format loses nothing: De(Ser(t)) = t, re-serialising is     *)
(* stable, the legacy codec carries exactly its four fields, and the       *)
(* upgraded legacy document loads as the same tree with empty namespace    *)
(* data.  Every tree is logged with its documents for the spec->code       *)
(* replay.                                                                 *)
(***************************************************************************)
EXTENDS Codec, TLC, Json

VARIABLE tree

V(nm, c, tl, p, ns, at, ex) == [name |-> nm, content |-> c, tail |-> tl, prefix |-> p, ns |-> ns, attrs |-> at, extras |-> ex]
Variants == {V(1, 0, 0, 0, <<>>, <<>>, <<>>),
             V(2, 1, 0, 0, <<>>, <<>>, <<>>),
             V(1, 0, 2, 0, <<>>, <<>>, <<>>),
             V(1, 0, 0, 3, <<<<3, 4>>>>, <<>>, <<>>),
             V(1, 0, 0, 5, <<>>, <<>>, <<>>),                      \* a prefix the node's own map does not declare
             V(2, 0, 0, 0, <<>>, <<<<1, 1>>, <<2, 2>>>>, <<>>),
             V(2, 0, 0, 0, <<>>, <<<<2, 2>>, <<1, 1>>>>, <<>>),
             V(1, 5, 0, 0, <<>>, <<>>, <<<<6, 2>>>>),
             V(2, 1, 2, 3, <<<<3, 4>>, <<5, 6>>>>, <<<<1, 2>>>>, <<<<6, 1>>>>)}
Mk(v, id, kids) == [id |-> id, name |-> v.name, ns |-> v.ns, prefix |-> v.prefix, attrs |-> v.attrs, extras |-> v.extras,
                    content |-> v.content, tail |-> v.tail, kids |-> kids]
Trees == {Mk(a, 11, <<>>) : a \in Variants}
         \cup {Mk(a, 11, <<Mk(b, 12, <<>>)>>) : a, b \in Variants}
         \cup {Mk(a, 11, <<Mk(b, 12, <<>>), Mk(c, 13, <<>>)>>) : a, b, c \in Variants}
         \cup {Mk(a, 11, <<Mk(b, 12, <<Mk(c, 13, <<>>)>>)>>) : a, b, c \in Variants}
         \cup {Mk(a, 11, <<Mk(b, 12, <<>>), Mk(b, 12, <<>>)>>) : a, b \in Variants}        \* two nodes carrying the same id
         \cup {Mk(a, 11, <<Mk(b, 11, <<>>)>>) : a, b \in Variants}                          \* a child carrying its parent's id
(* the quantifier of the statement: a child's prefixes include its parent's *)
Dom(ns) == {ns[i][1] : i \in 1..Len(ns)}
RECURSIVE NsIncl(_)
NsIncl(T) == \A i \in 1..Len(T.kids) : Dom(T.ns) \subseteq Dom(T.kids[i].ns) /\ NsIncl(T.kids[i])

Init == tree \in {T \in Trees : NsIncl(T)}
Next == UNCHANGED tree
Spec == Init /\ [][Next]_tree

RoundTrip     == De(Ser(tree)) = tree
Stable        == Ser(De(Ser(tree))) = Ser(tree)
LegacyCarries == DeL(SerL(tree)) = LegacyView(tree)
UpgradeLoads  == De(Upgrade(SerL(tree))) = LegacyView(tree)
Log == PrintT(ToJson([k |-> "K", tree |-> tree, doc |-> Ser(tree), docL |-> SerL(tree), docU |-> Upgrade(SerL(tree))]))
=============================================================================
