------------------------------- MODULE Evaluate -------------------------------
(***************************************************************************)
(* C19: the documented recommendations as a function from a tree to the    *)
(* set of (warning, node) pairs.  The tree is the flat projection          *)
(*   name[n], kids[n]                                                      *)
(*   wc[n]     number of words of the node's own content (0 if none)       *)
(*   falsy[n]  the node has no content or the empty string                 *)
(*   orcid[n]  the node carries directory = "https://orcid.org"            *)
(* UNSPEC regions (not judged): a present abstract with zero words may be  *)
(* reported missing or too short; intellectualRights / description whose   *)
(* only text sits in para / markdown descendants without words; several    *)
(* physical / size / authentication children.                              *)
(***************************************************************************)
EXTENDS Naturals, Sequences, FiniteSets

Rng(s) == {s[i] : i \in 1..Len(s)}
KidsNamed(S, n, x) == SelectSeq(S.kids[n], LAMBDA c : S.name[c] = x)
HasKid(S, n, x) == KidsNamed(S, n, x) # <<>>
First(S, n, x) == KidsNamed(S, n, x)[1]
Last(S, n, x) == LET k == KidsNamed(S, n, x) IN k[Len(k)]
ParentOf(S, n) == IF \E p \in 1..Len(S.kids) : n \in Rng(S.kids[p]) THEN CHOOSE p \in 1..Len(S.kids) : n \in Rng(S.kids[p]) ELSE 0
Truthy(S, n) == ~S.falsy[n]

RECURSIVE DescSet(_, _)
DescSet(S, n) == UNION {{c} \cup DescSet(S, c) : c \in Rng(S.kids[n])}           \* proper descendants
TextNodes(S, n) == {d \in DescSet(S, n) : S.name[d] \in {"para", "markdown"}}
RECURSIVE SumWc(_, _)
SumWc(S, set) == IF set = {} THEN 0 ELSE LET x == CHOOSE y \in set : TRUE IN S.wc[x] + SumWc(S, set \ {x})
TextPresent(S, n) == Truthy(S, n) \/ TextNodes(S, n) # {}                         \* get_text_content(n) is a non-empty string
TextWords(S, n) == (IF Truthy(S, n) THEN S.wc[n] ELSE 0) + SumWc(S, TextNodes(S, n))

Parties == {"creator", "contact", "associatedParty", "metadataProvider", "personnel"}
DescriptionParents == [connectionDefinition |-> "CONNECTION_DEFINITION_DESCRIPTION_MISSING", designDescription |-> "DESIGN_DESCRIPTION_DESCRIPTION_MISSING",
                       maintenance |-> "MAINTENANCE_DESCRIPTION_MISSING", methodStep |-> "METHOD_STEP_DESCRIPTION_MISSING",
                       procedureStep |-> "PROCEDURE_STEP_DESCRIPTION_MISSING", qualityControl |-> "QUALITY_CONTROL_DESCRIPTION_MISSING",
                       samplingDescription |-> "SAMPLING_DESCRIPTION_DESCRIPTION_MISSING", studyExtent |-> "STUDY_EXTENT_DESCRIPTION_MISSING"]

PartyW(S, n) ==
  LET uids == {c \in Rng(S.kids[n]) : S.name[c] = "userId" /\ Truthy(S, c)}
      mails == {c \in Rng(S.kids[n]) : S.name[c] = "electronicMailAddress" /\ Truthy(S, c)} IN
  (IF \E c \in uids : S.orcid[c] THEN {} ELSE {"ORCID_ID_MISSING"})
  \cup (IF uids # {} THEN {} ELSE {"USER_ID_MISSING"}) \cup (IF mails # {} THEN {} ELSE {"EMAIL_MISSING"})

KeywordCount(S, n) == LET sets == KidsNamed(S, n, "keywordSet")
                          RECURSIVE cnt(_)
                          cnt(i) == IF i > Len(sets) THEN 0 ELSE Len(KidsNamed(S, sets[i], "keyword")) + cnt(i + 1)
                      IN cnt(1)
(* dataset: the definite warnings; abstract handled separately because of its UNSPEC corner *)
DatasetW(S, n) ==
     (IF HasKid(S, n, "coverage") /\ S.kids[Last(S, n, "coverage")] # <<>> THEN {} ELSE {"DATASET_COVERAGE_MISSING"})
  \cup (IF HasKid(S, n, "dataTable") THEN {} ELSE {"DATATABLE_MISSING"})
  \cup (IF HasKid(S, n, "keywordSet") THEN (IF KeywordCount(S, n) < 5 THEN {"KEYWORDS_INSUFFICIENT"} ELSE {}) ELSE {"KEYWORDS_MISSING"})
  \cup (IF HasKid(S, n, "methods") THEN {} ELSE {"DATASET_METHOD_STEPS_MISSING"})
  \cup (IF HasKid(S, n, "project") THEN {} ELSE {"DATASET_PROJECT_MISSING"})
AbstractW(S, n) ==     \* set of ACCEPTABLE warning sets about the abstract
  IF ~HasKid(S, n, "abstract") THEN {{"DATASET_ABSTRACT_MISSING"}}
  ELSE LET a == Last(S, n, "abstract") IN
       IF ~TextPresent(S, a) THEN {{"DATASET_ABSTRACT_MISSING"}}
       ELSE IF TextWords(S, a) = 0 THEN {{"DATASET_ABSTRACT_MISSING"}, {"DATASET_ABSTRACT_TOO_SHORT"}}      \* UNSPEC: either
       ELSE IF TextWords(S, a) < 20 THEN {{"DATASET_ABSTRACT_TOO_SHORT"}} ELSE {{}}
RightsW(S, n) ==       \* acceptable sets about intellectual rights
  IF ~HasKid(S, n, "intellectualRights") THEN {{"INTELLECTUAL_RIGHTS_MISSING"}}
  ELSE LET r == Last(S, n, "intellectualRights") IN
       IF Truthy(S, r) THEN {{}} ELSE IF TextNodes(S, r) # {} THEN {{}, {"INTELLECTUAL_RIGHTS_MISSING"}} ELSE {{"INTELLECTUAL_RIGHTS_MISSING"}}

TruthyKid(S, n, x) == \E c \in Rng(S.kids[n]) : S.name[c] = x /\ Truthy(S, c)
DataTableW(S, n) ==
  LET hasPhys == HasKid(S, n, "physical")
      ph == First(S, n, "physical")
      tfs == IF hasPhys /\ HasKid(S, ph, "dataFormat") THEN KidsNamed(S, Last(S, ph, "dataFormat"), "textFormat") ELSE <<>>
      (* looked up under physical/dataFormat/textFormat (the only place it occurs in valid trees), else directly under physical *)
      recDelim == IF tfs # <<>> /\ HasKid(S, tfs[1], "recordDelimiter") THEN Truthy(S, First(S, tfs[1], "recordDelimiter"))
                  ELSE hasPhys /\ HasKid(S, ph, "recordDelimiter") /\ Truthy(S, Last(S, ph, "recordDelimiter")) IN
     (IF TruthyKid(S, n, "entityDescription") THEN {} ELSE {"DATATABLE_DESCRIPTION_MISSING"})
  \cup (IF hasPhys /\ HasKid(S, ph, "size") /\ Truthy(S, Last(S, ph, "size")) THEN {} ELSE {"DATATABLE_SIZE_MISSING"})
  \cup (IF hasPhys /\ HasKid(S, ph, "authentication") /\ Truthy(S, Last(S, ph, "authentication")) THEN {} ELSE {"DATATABLE_MD5_CHECKSUM_MISSING"})
  \cup (IF HasKid(S, n, "numberOfRecords") /\ Truthy(S, First(S, n, "numberOfRecords")) THEN {} ELSE {"DATATABLE_NUMBER_OF_RECORDS_MISSING"})
  \cup (IF recDelim THEN {} ELSE {"DATATABLE_RECORD_DELIMITER_MISSING"})

DescriptionW(S, n) ==      \* acceptable sets
  LET p == ParentOf(S, n) IN
  IF p = 0 \/ S.name[p] \notin DOMAIN DescriptionParents THEN {{}}
  ELSE IF ~TextPresent(S, n) THEN {{DescriptionParents[S.name[p]]}}
  ELSE IF TextWords(S, n) = 0 THEN {{}, {DescriptionParents[S.name[p]]}}       \* only wordless paras: UNSPEC
  ELSE {{}}

(* the set of acceptable warning sets for node n *)
NodeW(S, n) ==
  LET nm == S.name[n] IN
  IF nm \in Parties THEN {PartyW(S, n)}
  ELSE IF nm = "dataset" THEN {DatasetW(S, n) \cup a \cup r : a \in AbstractW(S, n), r \in RightsW(S, n)}
  ELSE IF nm = "dataTable" THEN {DataTableW(S, n)}
  ELSE IF nm = "otherEntity" THEN {IF TruthyKid(S, n, "entityDescription") THEN {} ELSE {"OTHER_ENTITY_DESCRIPTION_MISSING"}}
  ELSE IF nm = "individualName" THEN {IF TruthyKid(S, n, "givenName") /\ TruthyKid(S, n, "surName") THEN {} ELSE {"INDIVIDUAL_NAME_INCOMPLETE"}}
  ELSE IF nm = "description" THEN DescriptionW(S, n)
  ELSE IF nm = "title" THEN {IF S.hasContent[n] /\ ParentOf(S, n) # 0 /\ S.name[ParentOf(S, n)] = "dataset" /\ S.titleWords[n] < 5 THEN {"TITLE_TOO_SHORT"} ELSE {}}
  ELSE {{}}
=============================================================================
