------------------------------- MODULE TraceEval -------------------------------
(***************************************************************************)
(* code -> spec for C19: one event per evaluate.tree call: the projected   *)
(* tree, the observed (warning, node) pairs, and outcome facts (raised,    *)
(* earlier entries intact, entry shape).  With judge = "warnings" the      *)
(* observed pairs must be, node by node, one of the acceptable warning     *)
(* sets of Evaluate.tla; with judge = "totality" only the outcome facts    *)
(* are judged (trees that need not be valid).                              *)
(***************************************************************************)
EXTENDS Evaluate, TLC, Json, IOUtils

Events == JsonDeserialize(IOEnv.TRACE_FILE)
VARIABLE l

ObsAt(e, n) == {e.obs[i][1] : i \in {j \in 1..Len(e.obs) : e.obs[j][2] = n}}
Dups(e) == \E i, j \in 1..Len(e.obs) : i < j /\ e.obs[i] = e.obs[j]

Clauses(e) ==
     (IF e.raised = "" THEN {} ELSE {"raised"})
  \cup (IF e.intact THEN {} ELSE {"earlier-entries-disturbed"})
  \cup (IF e.shape THEN {} ELSE {"entry-shape"})
  \cup (IF e.judge = "warnings" /\ e.raised = ""
        THEN (IF Dups(e) THEN {"duplicate-warning"} ELSE {})
             \cup UNION {IF ObsAt(e, n) \in NodeW(e.tree, n) THEN {}
                         ELSE {"wrong-warnings-at:" \o e.tree.name[n]} : n \in 1..Len(e.tree.name)}
        ELSE {})

Judge(k) == LET c == Clauses(Events[k]) IN
            IF c = {} THEN TRUE ELSE PrintT(ToJson([k |-> "REJECT", event |-> k, clauses |-> c,
                 detail |-> IF Events[k].judge = "warnings" /\ Events[k].raised = "" THEN
                     {<<n, ObsAt(Events[k], n), NodeW(Events[k].tree, n)>> : n \in {m \in 1..Len(Events[k].tree.name) : ObsAt(Events[k], m) \notin NodeW(Events[k].tree, m)}}
                   ELSE {}]))
Init == l = 0
Next == l < Len(Events) /\ Judge(l + 1) /\ l' = l + 1
TraceSpec == Init /\ [][Next]_l
AllConsumed == TLCGet("stats").diameter = Len(Events) + 1
=============================================================================
