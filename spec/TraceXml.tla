------------------------------- MODULE TraceXml --------------------------------
(***************************************************************************)
(* code -> spec for C07 (both XML exporters) and C08 (XML import): every   *)
(* recorded import / export is judged by the correspondence relation of    *)
(* Xml.tla between the RAW document (independent parser) and the tree.     *)
(***************************************************************************)
EXTENDS Xml, TLC, Json, IOUtils

Events == JsonDeserialize(IOEnv.TRACE_FILE)
VARIABLE l

Clauses(e) ==
  CASE e.op = "import"     -> Corr(e.mode, e.raw, {}, e.tree, NONE, Rng(e.lits))
    [] e.op = "export"     -> IF ~e.wf THEN {"ill-formed-output"} ELSE Corr("export", e.raw, {}, e.tree, NONE, {})
    [] e.op = "export_eml" -> IF ~e.wf THEN {"ill-formed-output"} ELSE CorrEml(e.raw, e.tree, TRUE)
    [] e.op = "import_legacy" -> CorrLegacy(e.raw, e.tree)
    [] e.op = "same"       -> IF SameUpToWs(e.t1, e.t2) THEN {} ELSE {"trees-differ"}

Judge(k) == LET c == Clauses(Events[k]) IN
            IF c = {} THEN TRUE ELSE PrintT(ToJson([k |-> "REJECT", event |-> k, clauses |-> c]))
Init == l = 0
Next == l < Len(Events) /\ Judge(l + 1) /\ l' = l + 1
TraceSpec == Init /\ [][Next]_l
AllConsumed == TLCGet("stats").diameter = Len(Events) + 1
=============================================================================
