SPECIFICATION Spec
CONSTANT MaxLen = 6
INVARIANT NormalizeOK
INVARIANT NormalizeSpaceIdem
INVARIANT CleanIdem
INVARIANT CleanKeepsWords
