------------------------------- MODULE MC_Dfa --------------------------------
(***************************************************************************)
(* C01: for every rule of the generated table, the product automaton of    *)
(* the strict and the lenient reading of its children section, obtained    *)
(* as TLC's reachable graph of Feed.  With Words = TRUE the word read so   *)
(* far is kept and the derivative automaton is cross-checked against the   *)
(* declarative membership In on every word up to the rule's length bound.  *)
(***************************************************************************)
EXTENDS RuleTable, Json

CONSTANTS FeedForeign,  \* BOOLEAN: also feed the foreign name (C01) or only the rule's own names (C17)
          Words,        \* BOOLEAN: keep the word and check DerivativeAgrees
          Budget        \* per rule: explore words while |alphabet|^length <= Budget (at most MaxLen)
MaxLen == 8
FOREIGN == "~foreign"   \* stands for every name outside the rule (the code only tests membership)

VARIABLES unit, sres, lres, w, last      \* last: the symbol just fed (history, hidden by the view)
vars == <<unit, sres, lres, w, last>>
DfaView == <<unit, sres, lres, w>>

Units == (DOMAIN RulesJson) \cup {"@metadata"}   \* "@metadata": the element named metadata overrides its rule
WellFormed(u) == u = "@metadata" \/ RuleErrors(RulesJson[u], ImplementedContentRules) = {}
StrictOf(u) == IF u = "@metadata" THEN Rep(Sym("~any"), 0, 1)       \* any word of length <= 1
               ELSE SectionRegex(RulesJson[u].l[2], u \in MixedRules)
Sigma(u)    == IF u = "@metadata" THEN {"~any"} ELSE Alphabet(StrictOf(u)) \cup {FOREIGN}

RECURSIVE Pow(_, _)
Pow(b, e) == IF e = 0 THEN 1 ELSE LET p == Pow(b, e - 1) IN IF p > Budget THEN p ELSE b * p   \* saturating: no 32-bit overflow
LenBound(u) == LET k == Cardinality(Sigma(u))
                   ok == {L \in 1..MaxLen : Pow(k, L) <= Budget} IN
               IF ok = {} THEN 1 ELSE CHOOSE L \in ok : \A M \in ok : M <= L

Init == /\ unit \in {u \in Units : WellFormed(u)}        \* ill-formed rules are C10's business
        /\ sres = StrictOf(unit) /\ lres = Lenient(StrictOf(unit)) /\ w = <<>> /\ last = ""
Feed(a) == /\ last' = a /\ (Words => Len(w) < LenBound(unit))
           /\ sres' = D(a, sres) /\ lres' = D(a, lres)
           /\ w' = IF Words THEN Append(w, a) ELSE w
           /\ UNCHANGED unit
Next == \E a \in Sigma(unit) : (a # FOREIGN \/ FeedForeign) /\ Feed(a)
Spec == Init /\ [][Next]_vars

Out(s, l) == IF Nullable(s) THEN "ACCEPT" ELSE IF ~Nullable(l) THEN "REJECT" ELSE "UNSPEC"

(* the two formulations of the content-model semantics agree (a disagreement is a SPEC error) *)
DerivativeAgrees == Words => /\ Nullable(sres) = In(StrictOf(unit), w)
                             /\ Nullable(lres) = In(Lenient(StrictOf(unit)), w)
StrictSubLenient == Nullable(sres) => Nullable(lres)

LogState == PrintT(ToJson([k |-> "S", unit |-> unit, id |-> <<sres, lres>>, out |-> Out(sres, lres),
                            init |-> (sres = StrictOf(unit) /\ lres = Lenient(StrictOf(unit)))]))
LogTransition == PrintT(ToJson([k |-> "T", unit |-> unit, from |-> <<sres, lres>>, a |-> last', to |-> <<sres', lres'>>]))
=============================================================================
