------------------------------- MODULE MC_Plans -------------------------------
(***************************************************************************)
(* Enumerates, exhaustively within small constants, the PLANS that the     *)
(* harness realises as concrete EML trees for the relational judges of     *)
(* TraceEml.tla:                                                           *)
(*  Which = "prune"  : a skeleton, a set of <= MaxPlant plantings          *)
(*                     (site, kind) and the strict flag (C15)              *)
(*  Which = "expand" : a sequence of <= MaxItems responsible-party items,  *)
(*                     each a definition (carrying an id) or a reference   *)
(*                     to a definition of the same rule family placed      *)
(*                     before OR after it, and one fault or none (C16)     *)
(***************************************************************************)
EXTENDS Naturals, Sequences, FiniteSets, TLC, Json

CONSTANTS Which, Skeletons, MaxSites, MaxPlant, MaxItems
VARIABLES plan

PlantKinds == {"unknown-child", "unknown-leaf", "misplaced-known-child", "invalid-content", "invalid-content-not-unicode", "invalid-attribute", "starve-required-child",
               "allowed-but-invalid-child-in-front"}      \* an empty sibling-named child at position 0: out of place AND invalid itself
  \* unknown-leaf: a childless child with a name that is not a known element - preferably one the parent's rule lists all the same
Plantings == (1..MaxSites) \X PlantKinds
UpTo2(S) == {{}} \cup {{a} : a \in S} \cup (IF MaxPlant >= 2 THEN {{a, b} : a \in S, b \in S} ELSE {})   \* never SUBSET S: 2^|S|
PrunePlans == {[skeleton |-> s, strict |-> b, plant |-> P] : s \in Skeletons, b \in BOOLEAN,
               P \in UpTo2(Plantings)}

Elems == {"creator", "metadataProvider", "contact", "associatedParty"}
Family(e) == IF e = "associatedParty" THEN "withRole" ELSE "plain"
Items == [el : Elems, kind : {"def", "def0"}, tgt : {0}] \cup [el : Elems, kind : {"ref"}, tgt : 1..MaxItems]     \* def0: a definition without children
WellFormed(p) == \A i \in 1..Len(p) : p[i].kind = "ref" =>
                    /\ p[i].tgt \in 1..Len(p) /\ p[i].tgt # i /\ p[p[i].tgt].kind \in {"def", "def0"}
                    /\ Family(p[p[i].tgt].el) = Family(p[i].el)
Defs(p) == {k \in 1..Len(p) : p[k].kind \in {"def", "def0"}}
Faults(p) == {<<"none", 0, 0>>} \cup {<<f, k, 0>> : k \in {i \in 1..Len(p) : p[i].kind = "ref"}, f \in {"dangling", "dangling-no-text", "dangling-empty-text"}}
             \cup {<<"duplicate-id", q[1], q[2]>> : q \in {r \in Defs(p) \X Defs(p) : r[1] < r[2]}}
             \cup {<<"duplicate-id-nested", i, 0>> : i \in Defs(p)}        \* the id again on a descendant of its holder

Init == IF Which = "prune" THEN plan \in PrunePlans ELSE plan = <<>>
Next == /\ Which = "expand" /\ Len(plan) < MaxItems /\ \E it \in Items : plan' = Append(plan, it)
Spec == Init /\ [][Next]_plan

Log == IF Which = "prune" THEN PrintT(ToJson([k |-> "PP", plan |-> plan]))
       ELSE (plan # <<>> /\ WellFormed(plan)) => PrintT(ToJson([k |-> "EP", items |-> plan, faults |-> Faults(plan)]))
=============================================================================
