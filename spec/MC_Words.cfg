SPECIFICATION Spec
CONSTANTS
  FeedForeign = TRUE
  Words = TRUE
  Budget = 20000
VIEW DfaView
INVARIANT StrictSubLenient
INVARIANT DerivativeAgrees
