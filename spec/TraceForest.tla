---------------------------- MODULE TraceForest -----------------------------
(***************************************************************************)
(* Trace validation for the node forest (code -> spec).  The harness runs  *)
(* the real API, logging for every public call its name, arguments,        *)
(* whether it raised, its result and the projected post-state.  Each event *)
(* is judged against the step functions of Steps.tla from the LOGGED       *)
(* previous state (so one rejection never hides the rest of a trace), the  *)
(* failing clause is named, and a post-condition checks that every event   *)
(* of every trace was consumed.  Thousands of traces per TLC invocation.   *)
(***************************************************************************)
EXTENDS Steps, TLC, Json, IOUtils

Traces == JsonDeserialize(IOEnv.TRACE_FILE)      \* Seq([init: state, events: Seq(event)])

VARIABLES tid, l, memo        \* memo: C11 - results of read-only calls since the last mutating call
tvars == <<tid, l, memo>>

Load(s) == [s EXCEPT !.ns = [n \in DOMAIN s.ns |-> Range(s.ns[n])], !.store = Range(s.store)]
PreOf(t, k) == Load(IF k = 1 THEN Traces[t].init ELSE Traces[t].events[k-1].post)

Fail(pre, a) == [ok |-> FALSE, st |-> pre, ret |-> 0]
Good(S, r)   == [ok |-> TRUE, st |-> S, ret |-> r]
B(x) == x = TRUE     \* JSON booleans arrive as TLA+ booleans

(* what the specification says the call does; enabling conditions of the failing variants *)
Expect(pre, e) ==
  LET a == e.args  K == pre.kids IN
  CASE e.op = "create"          -> Good(NewNode(pre, a[1]), Size(pre) + 1)
    [] e.op = "add_child"       -> Good(AddChildF(pre, a[1], a[2], a[3]), 0)
    [] e.op = "remove_child"    -> IF Has(K[a[1]], a[2]) THEN Good(RemoveChildF(pre, a[1], a[2]), 0) ELSE Fail(pre, a)
    [] e.op = "remove_children" -> Good(RemoveChildrenF(pre, a[1]), 0)
    [] e.op = "replace_child"   -> IF Has(K[a[1]], a[2]) /\ pre.name[a[2]] = pre.name[a[3]]
                                      /\ ((B(a[4]) /\ a[2] # a[3]) => Desc(K, a[2]) \subseteq pre.store)    \* deleting an unregistered node fails: nothing changes
                                   THEN Good(ReplaceChildF(pre, a[1], a[2], a[3], B(a[4])), 0) ELSE Fail(pre, a)
    [] e.op = "shift"           -> IF Has(K[a[1]], a[2])
                                   THEN Good(ShiftF(pre, a[1], a[2], a[3], B(a[4])), ShiftRet(pre, a[1], a[2], a[3], B(a[4])))
                                   ELSE Fail(pre, a)
    [] e.op = "add_namespace"    -> Good(AddNamespaceF(pre, a[1], a[2], a[3]), 0)
    [] e.op = "remove_namespace" -> Good(RemoveNamespaceF(pre, a[1], a[2]), 0)
    [] e.op = "copy"             -> Good(CopyF(pre, a[1]), CopyRet(pre, a[1]))
    [] e.op = "delete"           -> Good(DeleteF(pre, a[1], B(a[2])), 0)
    [] e.op = "set_content"      -> Good(SetContentF(pre, a[1], a[2]), 0)
    [] e.op = "set_tail"         -> Good(SetTailF(pre, a[1], a[2]), 0)
    [] e.op = "set_name"         -> Good(SetNameF(pre, a[1], a[2]), 0)
    [] e.op = "set_prefix"       -> Good(SetPrefixF(pre, a[1], a[2]), 0)
    [] e.op = "add_attribute"    -> Good(AddAttributeF(pre, a[1], a[2], a[3]), 0)
    [] e.op = "remove_attribute" -> IF HasKey(pre.attrs[a[1]], a[2]) THEN Good(RemoveAttributeF(pre, a[1], a[2]), 0) ELSE Fail(pre, a)
    [] e.op = "add_extras"       -> Good(AddExtrasF(pre, a[1], a[2], a[3]), 0)
    [] e.op = "readonly"         -> Good(pre, 0)        \* C11: any read-only entry point is a stuttering step

(* the usage constraints under which the statement quantifies; an event outside them is the
   harness's fault, not the library's, and is reported as such *)
Precond(pre, e) ==
  LET a == e.args  K == pre.kids IN
  CASE e.op = "add_child"     -> CanAttach(K, a[1], a[2])            \* any integer position: Steps!PyPos gives list.insert's meaning
    [] e.op = "replace_child" -> ((a[2] = a[3] /\ Has(K[a[1]], a[2])) \/ (CanAttach(K, a[1], a[3]) /\ a[2] # a[3]))
                                 \* (an old child that is no longer registered is no usage error: the call fails, see Expect)
    [] e.op = "delete"        -> a[1] \in pre.store /\ (B(a[2]) => Desc(K, a[1]) \subseteq pre.store)
    [] OTHER -> TRUE

(* namespaces: add_child is judged by what the statement promises, everything else exactly *)
NsOK(pre, e, exp, post) ==
  IF e.op = "add_child"
  THEN LET p == e.args[1]  c == e.args[2]  D == Desc(pre.kids, c) IN
       /\ \A m \in NodesOf(pre) \ D : post.ns[m] = pre.ns[m]                          \* Frame
       /\ post.ns[c] = NsMerge(pre.ns[p], pre.ns[c])                                   \* child wins
       \* below c: attach pushes down the prefixes c did not have (over whatever the descendants bound them to); every OTHER binding
       \* of a descendant is its own and stays (a declared binding stays visible in its subtree until it is removed)
       /\ LET pushed == {bd[1] : bd \in pre.ns[p]} \ {bd[1] : bd \in pre.ns[c]} IN
          \A m \in D \ {c} : \A bd \in pre.ns[m] : bd \in post.ns[m] \/ bd[1] \in pushed
  ELSE post.ns = exp.st.ns

Query(pre, e) ==
  LET a == e.args  K == pre.kids  nm == pre.name IN
  CASE e.q = "find_child"           -> FindChild(K, nm, a[1], a[2])
    [] e.q = "find_all_children"    -> FindAllChildren(K, nm, a[1], a[2])
    [] e.q = "find_descendant"      -> FindDescendant(K, nm, a[1], a[2])
    [] e.q = "find_all_descendants" -> FindAllDescendants(K, nm, a[1], a[2])
    [] e.q = "single_by_path"       -> SingleByPath(K, nm, a[1], a[2])
    [] e.q = "all_by_path"          -> AllByPath(K, nm, a[1], a[2])
    [] e.q = "ancestry"             -> AncestrySeq(K, a[1])
    [] e.q = "child_index"          -> ChildIndex(K, a[1], a[2])
    [] e.q = "is_equal"             -> TreeEq(pre, a[1], a[2])

(* C14 on whole-tree operations (import of a document; prune / expand, which are documented to
   discard nodes): judged relationally on the logged pre/post states *)
Registry(pre, e, post) ==
  LET root == e.args[1]
      old  == IF root <= Size(pre) THEN Desc(pre.kids, root) ELSE {}
      live == Desc(post.kids, root)
      fresh == (Size(pre) + 1)..Size(post)
  IN (IF live \subseteq post.store THEN {} ELSE {"live-node-unregistered"})
     \cup (IF (old \ live) \cap post.store = {} THEN {} ELSE {"discarded-node-still-registered"})
     \cup (IF \A n \in NodesOf(pre) \ old : (n \in post.store) = (n \in pre.store) THEN {} ELSE {"unrelated-registry-changed"})
     \cup (IF e.op = "import_doc" /\ ~(fresh \subseteq post.store /\ fresh = live) THEN {"import-registers"} ELSE {})

(* prune of a parentless root that the operation itself reports as removed (an unknown element name): the whole tree is
   what was discarded - nothing of it stays registered, nothing else changes *)
RegistryWhole(pre, e, post) ==
  LET old == Desc(pre.kids, e.args[1]) IN
     (IF old \cap post.store = {} THEN {} ELSE {"discarded-node-still-registered"})
  \cup (IF \A n \in NodesOf(pre) \ old : (n \in post.store) = (n \in pre.store) THEN {} ELSE {"unrelated-registry-changed"})

Clauses(t, k) ==
  LET e == Traces[t].events[k]  pre == PreOf(t, k) IN
  IF e.op = "q"
  THEN (IF Query(pre, e) = e.ret THEN {} ELSE {"query:" \o e.q})
       \cup (IF Load(e.post) = pre THEN {} ELSE {"query-mutates"})
  ELSE IF e.op = "resync" THEN {}            \* the harness edited through the public API; nothing judged
  ELSE IF e.op = "readonly" /\ Load(e.post) = pre THEN {}      \* a stuttering step is what C11 asks for, on any tree (and the
                                                               \* forest tests below are quadratic: trees of thousands of nodes)
  ELSE IF ~(NoSharing(pre.kids) /\ Acyclic(pre.kids)) THEN {}     \* the caller already broke the usage constraint (a node in two
                                                                 \* child lists): outside the quantifier, nothing is claimed
  ELSE IF e.op \in {"import_doc", "discarding"} THEN Registry(pre, e, Load(e.post))
  ELSE IF e.op = "discarding_whole" THEN RegistryWhole(pre, e, Load(e.post))
  ELSE IF ~Precond(pre, e) THEN {"HARNESS-precondition"}
  ELSE LET exp == Expect(pre, e)  post == Load(e.post) IN
       IF exp.ok # B(e.ok) THEN {IF exp.ok THEN "raised-unexpectedly" ELSE "did-not-raise"}
                                \cup (IF ~exp.ok /\ post.kids # pre.kids THEN {"failed-edit-changed-tree"} ELSE {})
       ELSE (IF exp.ok /\ e.ret # exp.ret THEN {"ret"} ELSE {})
         \cup {f \in {"name", "kids", "content", "tail", "prefix", "attrs", "extras", "store"} : post[f] # exp.st[f]}
         \cup (IF NsOK(pre, e, exp, post) THEN {} ELSE {"ns"})
         \cup (IF Size(post) = Size(exp.st) THEN {} ELSE {"size"})
         \cup (IF NoSharing(post.kids) /\ Acyclic(post.kids) THEN {} ELSE {"forest"})


(* C11: since the last mutating call, equal read-only calls give equal results ("results do not
   depend on which of these ran before") *)
IsRO(e) == e.op = "readonly"
MemoClash(e) == IsRO(e) /\ e.fn \in DOMAIN memo /\ memo[e.fn] # e.res
MemoNext(e) == IF ~IsRO(e) THEN <<>>
               ELSE IF e.fn \in DOMAIN memo THEN memo ELSE memo @@ (e.fn :> e.res)

RegistryGrew(e) == IsRO(e) /\ "regdelta" \in DOMAIN e /\ e.regdelta # 0        \* the whole registry, not only this tree's ids
(* the stored parent pointers are not a state component of the model (see Forest.tla); a read-only call must leave
   them as they are all the same *)
ParentLinkMoved(t, k) == LET e == Traces[t].events[k]  pre == IF k = 1 THEN Traces[t].init ELSE Traces[t].events[k-1].post IN
                         IsRO(e) /\ "plink" \in DOMAIN e.post /\ "plink" \in DOMAIN pre /\ e.post.plink # pre.plink
Judge(t, k) == LET c == Clauses(t, k) \cup (IF MemoClash(Traces[t].events[k]) THEN {"result-depends-on-what-ran-before"} ELSE {})
                         \cup (IF RegistryGrew(Traces[t].events[k]) THEN {"registry-size-changed"} ELSE {})
                         \cup (IF ParentLinkMoved(t, k) THEN {"parent-link"} ELSE {}) IN
               IF c = {} THEN TRUE ELSE PrintT(ToJson([k |-> "REJECT", trace |-> t, event |-> k, clauses |-> c]))

Init == tid = 1 /\ l = 0 /\ memo = <<>>
Next == \/ /\ tid <= Len(Traces) /\ l < Len(Traces[tid].events)
           /\ Judge(tid, l + 1) /\ l' = l + 1 /\ tid' = tid
           /\ memo' = MemoNext(Traces[tid].events[l + 1])
        \/ /\ tid <= Len(Traces) /\ l = Len(Traces[tid].events) /\ tid' = tid + 1 /\ l' = 0 /\ memo' = <<>>
TraceSpec == Init /\ [][Next]_tvars

RECURSIVE Total(_)
Total(t) == IF t = 0 THEN 0 ELSE Len(Traces[t].events) + 1 + Total(t - 1)
AllConsumed == TLCGet("stats").diameter = Total(Len(Traces)) + 1
=============================================================================
