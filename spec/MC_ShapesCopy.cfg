SPECIFICATION Spec
CONSTANTS
  MaxN = 5
  Names = {"a", "b"}
  Mode = "single"
INVARIANT EncodingOK
INVARIANT CopyIsEqualAndDisjoint
INVARIANT LogCopy
