SPECIFICATION Spec
CONSTANT Focus = "texts"
INVARIANT OracleOK
INVARIANT Log
