SPECIFICATION Spec
CONSTANTS
  FeedForeign = TRUE
  Words = FALSE
  Budget = 1
VIEW DfaView
INVARIANT StrictSubLenient
INVARIANT LogState
ACTION_CONSTRAINT LogTransition
