----------------------------- MODULE MC_Content ------------------------------
(***************************************************************************)
(* C02: every rule of the generated table x every abstract content class x *)
(* {has children} x {enumeration: none / listed value / unlisted value}.   *)
(* TLC evaluates the decision table (ContentClass.tla) on the rule's       *)
(* declared content constraints and logs the verdict of every combination; *)
(* the harness concretises each one.                                       *)
(***************************************************************************)
EXTENDS RuleTable, ContentClass, Json

VARIABLES unit, cc, hasKids, enum
vars == <<unit, cc, hasKids, enum>>

WFUnits == {u \in DOMAIN RulesJson : RuleErrors(RulesJson[u], ImplementedContentRules) = {}}
CSec(u) == RulesJson[u].l[3]
Init == /\ unit \in WFUnits /\ cc \in AllClasses /\ hasKids \in BOOLEAN
        /\ enum \in (IF HasEnum(CSec(unit)) THEN {"in", "out"} ELSE {"none"})
        /\ (enum = "in" => cc.cls \in {"TEXT", "EMPTY"})       \* listed values are plain text (or the empty string)
Next == UNCHANGED vars
Spec == Init /\ [][Next]_vars

CVerdict == ContentVerdict(ContentKinds(CSec(unit)), enum, cc, unit \in MixedRules, hasKids)
Total == CVerdict \in {"ACCEPT", "REJECT", "UNSPEC"}                                       \* the table is total
KindsKnown == \A i \in 1..Len(ContentKinds(CSec(unit))) : ContentKinds(CSec(unit))[i] \in KnownKinds
Log == PrintT(ToJson([k |-> "C", unit |-> unit, cls |-> cc.cls, bucket |-> cc.bucket, hasKids |-> hasKids,
                      enum |-> enum, verdict |-> CVerdict, kinds |-> ContentKinds(CSec(unit)), known |-> KindsKnown]))
=============================================================================
