SPECIFICATION TraceSpec
POSTCONDITION AllConsumed
CHECK_DEADLOCK FALSE
