------------------------------- MODULE MC_Attr --------------------------------
(***************************************************************************)
(* C03: attribute validation.  One node governed by a rule; AddAttribute / *)
(* RemoveAttribute move it through every assignment over the abstraction   *)
(* {absent, each listed value, one unlisted value} per declared attribute  *)
(* x {no foreign attribute, one foreign attribute}.  For every reachable   *)
(* assignment TLC states the exact set of violated constraints.            *)
(***************************************************************************)
EXTENDS RuleTable, Json, TLC

ABSENT   == "~absent"
UNLISTED == "~unlisted"       \* stands for any value outside the attribute's enumeration (or any value if none)
FOREIGNA == "~foreignAttr"    \* stands for any attribute name outside the rule's list

VARIABLES unit, asg
vars == <<unit, asg>>

WFUnits == {u \in DOMAIN RulesJson : RuleErrors(RulesJson[u], ImplementedContentRules) = {}}
ASec(u) == RulesJson[u].l[1]
Declared(u) == AttrNames(ASec(u))
Slots(u) == Declared(u) \cup {FOREIGNA}
ValuesFor(u, a) == IF a = FOREIGNA THEN {UNLISTED} ELSE AttrValues(ASec(u), a) \cup {UNLISTED}

Init == unit \in WFUnits /\ asg = [a \in Slots(unit) |-> ABSENT]
AddAttribute(a, v) == asg' = [asg EXCEPT ![a] = v] /\ UNCHANGED unit
RemoveAttribute(a) == asg[a] # ABSENT /\ asg' = [asg EXCEPT ![a] = ABSENT] /\ UNCHANGED unit
Next == \E a \in Slots(unit) : RemoveAttribute(a) \/ \E v \in ValuesFor(unit, a) : AddAttribute(a, v)
Spec == Init /\ [][Next]_vars

(* one error per violated constraint *)
AttrErrs(u, f) ==
     {<<"ATTRIBUTE_REQUIRED", a>> : a \in {x \in Declared(u) : AttrRequired(ASec(u), x) /\ f[x] = ABSENT}}
  \cup {<<"ATTRIBUTE_UNRECOGNIZED", a>> : a \in {x \in {FOREIGNA} : f[x] # ABSENT}}
  \cup {<<"ATTRIBUTE_EXPECTED_ENUM", a>> : a \in {x \in Declared(u) : AttrEnumerated(ASec(u), x) /\ f[x] = UNLISTED}}

LogState == PrintT(ToJson([k |-> "A", unit |-> unit, asg |-> asg, errs |-> AttrErrs(unit, asg)]))
LogUnit == (\A a \in Slots(unit) : asg[a] = ABSENT) =>
           PrintT(ToJson([k |-> "U", unit |-> unit,
                          decl |-> [a \in Declared(unit) |-> [required |-> AttrRequired(ASec(unit), a),
                                                             values |-> AttrValues(ASec(unit), a)]]]))
=============================================================================
