---------------------------- MODULE TraceValidate -----------------------------
(***************************************************************************)
(* code -> spec for C04 and C05.  One event per validated tree: the node   *)
(* table, the OBSERVED outcome of validate.node on every node (fail-fast   *)
(* and collecting), and the observed outcome of validate.tree in both      *)
(* modes.                                                                  *)
(*   C04 OutcomeOK : the only outcomes the specification has for a         *)
(*       validation are "succeeds" or "a rule error"; with an error list   *)
(*       nothing is raised, every entry is (ValidationError member, str,   *)
(*       node of this tree, ...), and the list is empty exactly when the   *)
(*       fail-fast call succeeds.  Anything else matches no action.        *)
(*   C05 TreeOK : the tree's error list is the concatenation, in document  *)
(*       order, of the per-node lists of every node not below a metadata   *)
(*       element; fail-fast succeeds iff every such node validates alone.  *)
(* Outcomes are records [kind, exc], kind in ok / rule / other / timeout.   *)
(***************************************************************************)
EXTENDS Naturals, Sequences, FiniteSets, TLC, Json, IOUtils

Events == JsonDeserialize(IOEnv.TRACE_FILE)
VARIABLE l

IsOk(o)   == o.kind = "ok"
IsRule(o) == o.kind = "rule"
Range(s) == {s[i] : i \in 1..Len(s)}

(* per-call outcome grammar: ff outcome, raised-in-collecting outcome, entries [code, node, shapeok] *)
OutcomeClauses(ff, craised, entries) ==
     (IF IsOk(ff) \/ IsRule(ff) THEN {} ELSE IF ff.kind = "timeout" THEN {"timeout"} ELSE {"failfast-non-rule-error"})
  \cup (IF IsOk(craised) THEN {} ELSE IF craised.kind = "timeout" THEN {"timeout"} ELSE {"collecting-mode-raised"})
  \cup (IF \A i \in 1..Len(entries) : entries[i][3] = TRUE THEN {} ELSE {"entry-shape"})
  \cup (IF IsOk(craised) /\ (IsOk(ff) \/ IsRule(ff)) /\ ((entries = <<>>) # IsOk(ff)) THEN {"modes-disagree"} ELSE {})

RECURSIVE TreeErrs(_, _), CatErrs(_, _, _)
TreeErrs(T, n) == [j \in 1..Len(T.nodeErrs[n]) |-> <<T.nodeErrs[n][j], n>>]
                  \o (IF T.name[n] = "metadata" THEN <<>> ELSE CatErrs(T, T.kids[n], 1))
CatErrs(T, ks, i) == IF i > Len(ks) THEN <<>> ELSE TreeErrs(T, ks[i]) \o CatErrs(T, ks, i + 1)
RECURSIVE Visible(_, _)
Visible(T, n) == {n} \cup (IF T.name[n] = "metadata" THEN {} ELSE UNION {Visible(T, T.kids[n][i]) : i \in 1..Len(T.kids[n])})

(* a metadata element is judged on itself and on HOW MANY children it has, never on what they are: with more than one
   child it is invalid; a plain one (no attributes, no text of its own) with at most one child is valid *)
MetadataWrong(e, n) == \/ Len(e.kids[n]) > 1 /\ (e.nodeErrs[n] = <<>> \/ IsOk(e.nodeFF[n]))
                       \/ Len(e.kids[n]) <= 1 /\ e.plain[n] /\ (e.nodeErrs[n] # <<>> \/ ~IsOk(e.nodeFF[n]))

Clauses(e) ==
  LET nodeCl == UNION {OutcomeClauses(e.nodeFF[n], e.nodeRaised[n], [j \in 1..Len(e.nodeErrs[n]) |-> <<e.nodeErrs[n][j], n, e.nodeShape[n]>>]) : n \in 1..Len(e.name)}
      treeCl == OutcomeClauses(e.ff, e.craised, e.coll)
      vis    == Visible(e, e.root)
      clean  == IsOk(e.craised) /\ (IsOk(e.ff) \/ IsRule(e.ff)) /\ \A n \in vis : IsOk(e.nodeRaised[n]) /\ (IsOk(e.nodeFF[n]) \/ IsRule(e.nodeFF[n]))
  IN {"node:" \o c : c \in nodeCl} \cup {"tree:" \o c : c \in treeCl}
     \cup (IF clean /\ [j \in 1..Len(e.coll) |-> <<e.coll[j][1], e.coll[j][2]>>] # TreeErrs(e, e.root) THEN {"tree-errors-not-concatenation-of-node-errors"} ELSE {})
     \cup (IF clean /\ ~e.rerun THEN {"tree-errors-of-a-second-run-into-the-same-list-differ"} ELSE {})    \* the list is the caller's: what it holds is no input
     \cup (IF clean /\ (IsOk(e.ff) # (\A n \in vis : IsOk(e.nodeFF[n]))) THEN {"tree-failfast-not-conjunction-of-nodes"} ELSE {})
     \cup (IF clean /\ e.per_node /\ \E n \in vis : e.name[n] = "metadata" /\ MetadataWrong(e, n) THEN {"metadata-outcome-depends-on-more-than-its-child-count"} ELSE {})

Judge(k) == LET c == Clauses(Events[k]) IN
            IF c = {} THEN TRUE ELSE PrintT(ToJson([k |-> "REJECT", event |-> k, clauses |-> c]))
Init == l = 0
Next == l < Len(Events) /\ Judge(l + 1) /\ l' = l + 1
TraceSpec == Init /\ [][Next]_l
AllConsumed == TLCGet("stats").diameter = Len(Events) + 1
=============================================================================
