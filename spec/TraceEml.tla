------------------------------ MODULE TraceEml --------------------------------
(***************************************************************************)
(* code -> spec for the whole-tree EML operations:                         *)
(*   C15 prune  (validate.prune, strict / non-strict)                      *)
(*   C16 expand (references.expand)                                        *)
(* Both are judged RELATIONALLY on the logged pre / post projections, the  *)
(* returned value, the registry and harness observations (validate.node    *)
(* outcomes).  "Known" and "AllowedIn" come from the rule table generated  *)
(* from the working tree (RuleTable.tla).                                  *)
(***************************************************************************)
EXTENDS Steps, TLC, Json, IOUtils, RuleTable

Events == JsonDeserialize(IOEnv.TRACE_FILE)
VARIABLE l

Load(s) == [s EXCEPT !.ns = [n \in DOMAIN s.ns |-> Range(s.ns[n])], !.store = Range(s.store)]

Known(x) == x \in DOMAIN NodeMap /\ NodeMap[x] \in DOMAIN RulesJson
Names(x) == Alphabet(SectionRegex(RulesJson[NodeMap[x]].l[2], FALSE))          \* names the element's rule mentions
AllowedIn(parentName, x) == parentName = "metadata" \/ x \in Names(parentName)

(* nodes of the tree under root that are not strictly below a metadata element *)
RECURSIVE Vis(_, _)
Vis(S, n) == {n} \cup (IF S.name[n] = "metadata" THEN {} ELSE UNION {Vis(S, S.kids[n][i]) : i \in 1..Len(S.kids[n])})
Offending(S, n) == ~Known(S.name[n])
                   \/ (ParOf(S.kids, n) # NULL /\ Known(S.name[ParOf(S.kids, n)]) /\ ~AllowedIn(S.name[ParOf(S.kids, n)], S.name[n]))

SameNode(A, B, n) == /\ A.name[n] = B.name[n] /\ A.content[n] = B.content[n] /\ A.tail[n] = B.tail[n] /\ A.prefix[n] = B.prefix[n]
                     /\ A.ns[n] = B.ns[n] /\ A.attrs[n] = B.attrs[n] /\ A.extras[n] = B.extras[n]

----------------------------------------------------------------------------
(* C15 *)
PruneClauses(e) ==
  LET pre == Load(e.pre)  post == Load(e.post)  root == e.root
      before == Desc(pre.kids, root)  after == Desc(post.kids, root)
      removed == before \ after
      Roots == {r \in removed : ParOf(pre.kids, r) \notin removed}                   \* roots of the removed subtrees
      ret == [i \in 1..Len(e.ret) |-> e.ret[i][1]]
      vis == Vis(post, root) \ {root}
  IN (IF e.raised = "" THEN {} ELSE {"raised"})
  \cup (IF \E n \in vis : Offending(post, n) THEN {"offending-node-remains"} ELSE {})
  \cup (IF e.strict /\ \E n \in vis : ~e.postValid[n] THEN {"strict-invalid-node-remains"} ELSE {})
  \cup (IF after \subseteq before /\ \A n \in after : SameNode(pre, post, n) /\ post.kids[n] = SelectSeq(pre.kids[n], LAMBDA c : c \notin removed)
        THEN {} ELSE {"kept-node-touched"})
  \cup (IF removed = UNION {Desc(pre.kids, r) : r \in Roots} THEN {} ELSE {"partial-subtree-removed"})
  \* every cut is reported once with a reason; in strict mode a node cut from a parent that is itself cut later is
  \* the root of its own removed subtree, so the list may hold nodes below Roots - but never a kept node
  \cup (IF Roots \subseteq Range(ret) /\ Range(ret) \subseteq removed /\ Len(ret) = Cardinality(Range(ret))
           /\ \A i \in 1..Len(e.ret) : e.ret[i][2] = TRUE THEN {} ELSE {"returned-list-wrong"})
  \cup (IF post.store = pre.store \ removed THEN {} ELSE IF (pre.store \ removed) \ post.store # {} THEN {"kept-node-unregistered"} ELSE {"removed-node-still-registered"})
  \cup (IF \A r \in Roots \cup Range(ret) : Offending(pre, r) \/ (e.strict /\ ~e.removedValid[r]) THEN {} ELSE {"innocent-node-removed"})
  \cup (IF e.secondRet = 0 /\ Load(e.second) = post THEN {} ELSE {"second-prune-not-idle"})

----------------------------------------------------------------------------
(* C16 *)
IdOf(S, n) == LET ks == {i \in 1..Len(S.attrs[n]) : S.attrs[n][i][1] = "id"} IN
              IF ks = {} THEN NULL ELSE S.attrs[n][CHOOSE i \in ks : TRUE][2]              \* value atom of the id attribute
RECURSIVE CrossEq(_, _, _, _)
CrossEq(A, a, B, b) ==     \* subtree a of state A is structurally equal to subtree b of state B
  /\ A.name[a] = B.name[b] /\ A.content[a] = B.content[b] /\ A.tail[a] = B.tail[b] /\ A.prefix[a] = B.prefix[b]
  /\ Range(A.attrs[a]) = Range(B.attrs[b]) /\ Range(A.extras[a]) = Range(B.extras[b])
  /\ Len(A.kids[a]) = Len(B.kids[b]) /\ \A i \in 1..Len(A.kids[a]) : CrossEq(A, A.kids[a][i], B, B.kids[b][i])

(* the copy of every node of a substituted block keeps the namespace bindings of its source node - except for prefixes the
   new parent binds and the top of the block does not: attaching the block pushes those down the whole block (C13) *)
RECURSIVE CrossNs(_, _, _, _, _)
CrossNs(A, a, B, b, exempt) ==
  /\ \A bd \in B.ns[b] : bd \in A.ns[a] \/ bd[1] \in exempt
  /\ Len(A.kids[a]) = Len(B.kids[b]) /\ \A i \in 1..Len(A.kids[a]) : CrossNs(A, A.kids[a][i], B, B.kids[b][i], exempt)
Bound(S, n) == {bd[1] : bd \in S.ns[n]}

ExpandClauses(e) ==
  LET pre == Load(e.pre)  post == Load(e.post)  root == e.root
      tree == Desc(pre.kids, root)
      refs == {n \in tree \ {root} : pre.name[n] = "references"}
      ids  == {IdOf(pre, n) : n \in {m \in tree : IdOf(pre, m) # NULL}}
      holders(v) == IF v = NULL THEN {} ELSE {n \in tree : IdOf(pre, n) = v}      \* a references node without text names nothing
      dup  == \E v \in ids : Cardinality(holders(v)) > 1
      dangling == \E r \in refs : holders(pre.content[r]) = {}
      shouldFail == dup \/ dangling
      target(r) == CHOOSE n \in holders(pre.content[r]) : TRUE
      fresh == (Size(pre) + 1)..Size(post)
      (* slots of the expected child list of p: old children stay, each reference becomes the block of its target's children *)
      slots(p) == Flat([i \in 1..Len(pre.kids[p]) |->
                     LET c == pre.kids[p][i] IN
                     IF c \in refs THEN [j \in 1..Len(pre.kids[target(c)]) |-> <<"new", pre.kids[target(c)][j]>>]
                     ELSE << <<"old", c>> >>])
      kidsOK(p) == LET s == slots(p) IN
                   /\ Len(post.kids[p]) = Len(s)
                   /\ \A i \in 1..Len(s) : IF s[i][1] = "old" THEN post.kids[p][i] = s[i][2]
                                           ELSE post.kids[p][i] \in fresh /\ CrossEq(post, post.kids[p][i], pre, s[i][2])
      nsOK(p) == LET s == slots(p) IN
                 Len(post.kids[p]) = Len(s) => \A i \in 1..Len(s) : s[i][1] = "new" /\ post.kids[p][i] \in fresh
                                               => CrossNs(post, post.kids[p][i], pre, s[i][2], Bound(pre, p) \ Bound(pre, s[i][2]))
  IN IF ~e.precondition THEN {"HARNESS-precondition"}
     ELSE IF shouldFail THEN
          (IF e.raised = "ValueError" THEN {} ELSE IF e.raised = "" THEN {"did-not-raise-ValueError"} ELSE {"raised-other-than-ValueError"})
          \cup (IF post = pre THEN {} ELSE {"failed-expansion-changed-tree"})
     ELSE (IF e.raised = "" THEN {} ELSE {"raised"})
       \cup (IF e.raised = "" /\ \E n \in Desc(post.kids, root) : post.name[n] = "references" THEN {"references-node-left"} ELSE {})
       \cup (IF e.raised = "" /\ ~(\A p \in tree \ refs : kidsOK(p)) THEN {"not-substituted-in-place"} ELSE {})
       \cup (IF e.raised = "" /\ (\A p \in tree \ refs : kidsOK(p)) /\ ~(\A p \in tree \ refs : nsOK(p)) THEN {"copy-lost-a-namespace-binding"} ELSE {})
       \cup (IF e.raised = "" /\ ~(\A n \in tree \ refs : SameNode(pre, post, n)) THEN {"existing-node-changed"} ELSE {})
       \cup (IF e.raised = "" /\ post.store # (pre.store \ refs) \cup fresh THEN {"registry"} ELSE {})
       \cup (IF e.raised = "" /\ ~NoSharing(post.kids) THEN {"copies-shared"} ELSE {})
       \cup (IF e.raised = "" /\ e.validBefore /\ ~e.validAfter THEN {"valid-tree-no-longer-validates"} ELSE {})
       \cup (IF e.raised = "" /\ ~(\A n \in NodesOf(pre) : n \in fresh \/ n \in refs \/ (SameNode(post, Load(e.probe), n) /\ (n \in tree => post.kids[n] = Load(e.probe).kids[n])))
             THEN {"copy-not-independent"} ELSE {})

Clauses(e) == IF e.op = "prune" THEN PruneClauses(e) ELSE ExpandClauses(e)
Judge(k) == LET c == Clauses(Events[k]) IN
            IF c = {} THEN TRUE ELSE PrintT(ToJson([k |-> "REJECT", event |-> k, clauses |-> c]))
Init == l = 0
Next == l < Len(Events) /\ Judge(l + 1) /\ l' = l + 1
TraceSpec == Init /\ [][Next]_l
AllConsumed == TLCGet("stats").diameter = Len(Events) + 1
=============================================================================
