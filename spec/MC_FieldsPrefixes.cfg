SPECIFICATION Spec
CONSTANT Focus = "prefixes"
INVARIANT OracleOK
INVARIANT Log
