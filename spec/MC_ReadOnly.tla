----------------------------- MODULE MC_ReadOnly ------------------------------
(***************************************************************************)
(* C11: op orders for the read-only entry points.  Every read-only call is *)
(* a stuttering step of Metapype (no tree variable, not the registry);     *)
(* this little model only enumerates the ORDERS in which the harness must  *)
(* apply them: every ordered pair (is B's result affected by A having run  *)
(* before?).  Longer seeded sequences are drawn by the harness.            *)
(***************************************************************************)
EXTENDS Naturals, Sequences, TLC, Json
CONSTANT ReadOps
VARIABLE seq
Init == seq = <<>>
Next == Len(seq) < 2 /\ \E o \in ReadOps : seq' = Append(seq, o)
Spec == Init /\ [][Next]_seq
Log == Len(seq) = 2 => PrintT(ToJson([k |-> "P", a |-> seq[1], b |-> seq[2]]))
=============================================================================
