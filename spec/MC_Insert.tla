------------------------------ MODULE MC_Insert ------------------------------
(***************************************************************************)
(* C17: the suggested insertion index.  For every rule, every existing     *)
(* child sequence w over the rule's names (up to the length budget) and    *)
(* every candidate name c:                                                 *)
(*   Acceptable(u, w, c) - the set of indexes the statement allows;        *)
(*   RankIndex(u, w, c)  - the documented algorithm (first child whose     *)
(*                         declaration rank exceeds the new child's),      *)
(*                         transcribed; RankIndexOK is a bounded theorem   *)
(*                         about that algorithm on the REAL rule table.    *)
(* Membership uses the derivative automaton (cross-checked against the     *)
(* declarative definition by MC_Words).                                    *)
(***************************************************************************)
EXTENDS MC_Dfa

RECURSIVE Residual(_, _)
Residual(r, v) == IF v = <<>> THEN r ELSE Residual(D(Head(v), r), Tail(v))
Accepts(r, v)  == Nullable(Residual(r, v))

Order(u)   == IF u = "@metadata" THEN <<>> ELSE DeclOrder(RulesJson[u].l[2])
NoDuplicateNames(u) == \A i, j \in 1..Len(Order(u)) : Order(u)[i] = Order(u)[j] => i = j   \* precondition of the statement
Rank(u, a) == CHOOSE i \in 1..Len(Order(u)) : Order(u)[i] = a
Sorted(u, v) == \A i \in 1..(Len(v) - 1) : Rank(u, v[i]) <= Rank(u, v[i + 1])        \* adjacent pairs suffice (<= is transitive)
Ins(v, i, c) == SubSeq(v, 1, i) \o <<c>> \o SubSeq(v, i + 1, Len(v))      \* insert at 0-based index i
Names(u) == Alphabet(StrictOf(u))

Acceptable(u, v, c) ==
  IF c \notin Names(u) THEN {}            \* refused with the child-not-allowed rule error
  ELSE LET S == StrictOf(u)  L == Lenient(S) IN
       \* the two premises are evaluated ONCE (TLC does not cache LET definitions): hoisted into IF-THEN-ELSE
       IF Sorted(u, v)
       THEN (IF \E j \in 0..Len(v) : Accepts(S, Ins(v, j, c))
             THEN {i \in 0..Len(v) : Sorted(u, Ins(v, i, c)) /\ Accepts(L, Ins(v, i, c))}
             ELSE {i \in 0..Len(v) : Sorted(u, Ins(v, i, c))})
       ELSE (IF \E j \in 0..Len(v) : Accepts(S, Ins(v, j, c))
             THEN {i \in 0..Len(v) : Accepts(L, Ins(v, i, c))}
             ELSE 0..Len(v))

RankIndex(u, v, c) == LET cand == {i \in 1..Len(v) : Rank(u, v[i]) > Rank(u, c)} IN
                      IF cand = {} THEN Len(v) ELSE (CHOOSE i \in cand : \A j \in cand : i <= j) - 1

Applies == unit # "@metadata" /\ NoDuplicateNames(unit)
RankIndexOK == Applies => \A c \in Names(unit) : RankIndex(unit, w, c) \in Acceptable(unit, w, c)

LogInsert == Applies => PrintT(ToJson([k |-> "I", unit |-> unit, w |-> w,
                 acc |-> [c \in Names(unit) |-> Acceptable(unit, w, c)]]))
LogUnit == (w = <<>>) => PrintT(ToJson([k |-> "U", unit |-> unit, names |-> Names(unit), order |-> Order(unit),
                 applies |-> Applies]))
=============================================================================
