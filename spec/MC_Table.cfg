SPECIFICATION Spec
