SPECIFICATION Spec
CONSTANTS
  MaxN = 4
  NameSet = {"a"}
  Prefixes = {"x"}
  Uris = {"u", ""}
  Texts = {}
  Keys = {}
  MaxLevel = 99
  NameVectors <- NoVectors
  InitMode = "all"
  LogFields = {"kids", "ns"}
  Ops = {"add_child", "remove_child", "add_namespace", "remove_namespace"}
VIEW StateView
INVARIANT TypeOK
INVARIANT ForestOK
INVARIANT LogState
PROPERTY Frame
PROPERTY NsEffect
PROPERTY RegistryStep
ACTION_CONSTRAINT LogTransition
