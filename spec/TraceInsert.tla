----------------------------- MODULE TraceInsert -----------------------------
(***************************************************************************)
(* code -> spec for C17: the harness calls child_insert_index on long      *)
(* child sequences (accepted sequences with one child taken out, so the    *)
(* premise "some position restores validity" holds by construction) and    *)
(* logs (rule, existing children, candidate, observed result).  TLC judges *)
(* every case with Acceptable from MC_Insert.                              *)
(***************************************************************************)
EXTENDS MC_Insert, IOUtils

Cases == JsonDeserialize(IOEnv.TRACE_FILE)      \* Seq([unit, w, c, obs]); obs = -1: ChildNotAllowedError
VARIABLE l
tvars == <<unit, sres, lres, w, last, l>>

Judge(e) == LET acc == Acceptable(e.unit, e.w, e.c) IN
            IF (acc = {} /\ e.obs = -1) \/ e.obs \in acc THEN TRUE
            ELSE PrintT(ToJson([k |-> "REJECT", case |-> l + 1, acceptable |-> acc, clauses |->
                   {IF e.obs = -1 THEN "allowed-child-refused"
                    ELSE IF acc = {} THEN "foreign-child-not-refused"
                    ELSE IF e.obs \notin 0..Len(e.w) THEN "out-of-bounds"
                    ELSE IF Sorted(e.unit, e.w) /\ ~Sorted(e.unit, Ins(e.w, e.obs, e.c)) THEN "breaks-declared-order"
                    ELSE "does-not-restore-validity"}]))
TInit == l = 0 /\ unit = "" /\ sres = Nil /\ lres = Nil /\ w = <<>> /\ last = ""
TNext == l < Len(Cases) /\ Judge(Cases[l + 1]) /\ l' = l + 1 /\ UNCHANGED <<unit, sres, lres, w, last>>
TraceSpec == TInit /\ [][TNext]_tvars
AllConsumed == TLCGet("stats").diameter = Len(Cases) + 1
=============================================================================
