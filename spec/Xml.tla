---------------------------------- MODULE Xml ----------------------------------
(***************************************************************************)
(* The correspondence between an XML document and a metapype tree (C07,    *)
(* C08).                                                                   *)
(*                                                                         *)
(* RAW document (what an independent non-namespace-aware parser reports;   *)
(* qualified names split at the colon by the harness, nothing else):       *)
(*   rnode = [p, l, a: Seq([p, l, v]), c: Seq(item)]                       *)
(*   item  = [t: "e", e: rnode] | [t: "t", s: text]                        *)
(*   an attribute with p = "xmlns" is a namespace declaration of prefix l  *)
(* TREE (projection of the real nodes):                                    *)
(*   tnode = [name, prefix, ns: Seq(<<prefix, uri>>), attrs: Seq(<<k,v>>), *)
(*            extras: Seq([uri, local, v, prefixed]), content, tail, kids] *)
(* Texts and URIs are code-point sequences, NONE = <<-1>>; names, prefixes *)
(* are ASCII strings, "" = no prefix.                                      *)
(*                                                                         *)
(* Namespace scoping is recomputed HERE from the declarations as written   *)
(* (InScope), independently of lxml.                                       *)
(***************************************************************************)
EXTENDS Text

XMLNS_URI == <<104,116,116,112,58,47,47,119,119,119,46,119,51,46,111,114,103,47,88,77,76,47,49,57,57,56,47,110,97,109,101,115,112,97,99,101>>
             \* "http://www.w3.org/XML/1998/namespace": the xml prefix is bound implicitly

Rng(s) == {s[i] : i \in 1..Len(s)}
Decls(r) == {<<r.a[i].l, r.a[i].v>> : i \in {j \in 1..Len(r.a) : r.a[j].p = "xmlns"}}
Bind(scope, decls) == {b \in scope : b[1] \notin {d[1] : d \in decls}} \cup decls          \* inner declarations shadow
InScope(scope, r) == Bind(scope, Decls(r))
Uri(scope, p) == IF p = "xml" THEN XMLNS_URI ELSE IF \E b \in scope : b[1] = p THEN (CHOOSE b \in scope : b[1] = p)[2] ELSE NONE
PlainAttrs(r) == SelectSeq(r.a, LAMBDA x : x.p = "")
QualAttrs(r)  == SelectSeq(r.a, LAMBDA x : x.p \notin {"", "xmlns"})

RElems(r) == SelectSeq(r.c, LAMBDA it : it.t = "e")
RECURSIVE RSegsOf(_, _)
RSegsOf(items, cur) == IF items = <<>> THEN <<cur>>
                       ELSE IF Head(items).t = "t" THEN RSegsOf(Tail(items), IF cur = NONE THEN Head(items).s ELSE cur \o Head(items).s)
                       ELSE <<cur>> \o RSegsOf(Tail(items), NONE)
RSegs(r) == RSegsOf(r.c, NONE)        \* text before child 1, between children, after the last child (NONE = absent)

(* how texts must correspond *)
TextOK(mode, raw, got, literal) ==
  CASE mode = "raw"      -> got = raw
    [] mode = "clean"    -> CleanUnspec(raw) \/ got = ImportText(raw, TRUE, FALSE, literal)
    [] mode = "collapse" -> CleanUnspec(raw) \/ got = ImportText(raw, TRUE, TRUE, literal)
    [] mode = "export"   -> SameModuloStrip(raw, got)         \* up to leading/trailing whitespace; blank == absent

(* clauses violated by the correspondence of raw element r (with parent scope) and tree node t;
   rtail = the raw text following r inside its parent; lits = names of literal elements *)
RECURSIVE Corr(_, _, _, _, _, _)
Corr(mode, r, scope, t, rtail, lits) ==
  LET sc == InScope(scope, r)
      er == RElems(r)
      sg == RSegs(r)
      pa == PlainAttrs(r)
      qa == QualAttrs(r)
  IN (IF t.name = r.l THEN {} ELSE {"element-name"})
  \cup (IF t.prefix = r.p THEN {} ELSE {"element-prefix"})
  \cup (IF Rng(t.ns) = sc THEN {} ELSE {"namespace-bindings"})
  \cup (IF Len(t.attrs) = Len(pa) /\ \A i \in 1..Len(pa) : t.attrs[i] = <<pa[i].l, pa[i].v>> THEN {} ELSE {"attributes"})
  \cup (IF {<<x.uri, x.local, x.v>> : x \in Rng(t.extras)} = {<<Uri(sc, q.p), q.l, q.v>> : q \in Rng(qa)} /\ Len(t.extras) = Len(qa)
        THEN {} ELSE {"qualified-attributes"})
  \cup (IF \A x \in Rng(t.extras) : x.prefixed THEN {} ELSE {"qualified-attribute-not-under-prefixed-name"})
  \cup (IF TextOK(mode, sg[1], t.content, r.l \in lits) THEN {} ELSE {"content"})
  \cup (IF TextOK(mode, rtail, t.tail, FALSE) THEN {} ELSE {"tail"})
  \cup (IF Len(t.kids) # Len(er) THEN {"children"}
        ELSE UNION {Corr(mode, er[i].e, sc, t.kids[i], sg[i + 1], lits) : i \in 1..Len(er)})

(* the EML exporter: names, attributes, order and text only; namespaces are boilerplate on an eml root *)
RECURSIVE CorrEml(_, _, _)
CorrEml(r, t, isroot) ==
  LET er == RElems(r)  sg == RSegs(r)
      pa == SelectSeq(r.a, LAMBDA x : ~(isroot /\ t.name = "eml" /\ (x.p \in {"xmlns", "xsi"})))
  IN (IF (isroot /\ t.name = "eml" /\ r.p = "eml" /\ r.l = "eml") \/ (~(isroot /\ t.name = "eml") /\ r.p = "" /\ r.l = t.name) THEN {} ELSE {"element-name"})
  \cup (IF Len(t.attrs) = Len(pa) /\ \A i \in 1..Len(pa) : pa[i].p = "" /\ t.attrs[i] = <<pa[i].l, pa[i].v>> THEN {} ELSE {"attributes"})
  \cup (IF SameModuloStrip(sg[1], t.content) THEN {} ELSE {"content"})
  \cup (IF Len(t.kids) # Len(er) THEN {"children"}
        ELSE UNION {CorrEml(er[i].e, t.kids[i], FALSE) : i \in 1..Len(er)})

(* the legacy importer mp_io.from_xml (not one of the listed properties; judged as information): local names,
   unqualified attributes, text unless it is pure whitespace, no tails, no namespace data *)
RECURSIVE CorrLegacy(_, _)
CorrLegacy(r, t) ==
  LET er == RElems(r)  sg == RSegs(r)  pa == PlainAttrs(r)
      txt == IF sg[1] = NONE \/ sg[1] = <<>> \/ AllOf(sg[1], AnyWs) THEN NONE ELSE sg[1]
  IN (IF t.name = r.l THEN {} ELSE {"legacy:element-name"})
  \cup (IF t.prefix = "" /\ t.ns = <<>> /\ t.extras = <<>> /\ t.tail = NONE THEN {} ELSE {"legacy:namespace-data-or-tail-present"})
  \cup (IF Len(t.attrs) = Len(pa) /\ \A i \in 1..Len(pa) : t.attrs[i] = <<pa[i].l, pa[i].v>> THEN {} ELSE {"legacy:attributes"})
  \cup (IF t.content = txt THEN {} ELSE {"legacy:content"})
  \cup (IF Len(t.kids) # Len(er) THEN {"legacy:children"} ELSE UNION {CorrLegacy(er[i].e, t.kids[i]) : i \in 1..Len(er)})

(* import - export - import: the same tree up to the whitespace policy *)
RECURSIVE SameUpToWs(_, _)
SameUpToWs(a, b) ==
  /\ a.name = b.name /\ a.prefix = b.prefix /\ Rng(a.ns) = Rng(b.ns) /\ a.attrs = b.attrs
  /\ {<<x.uri, x.local, x.v>> : x \in Rng(a.extras)} = {<<x.uri, x.local, x.v>> : x \in Rng(b.extras)}
  /\ SameModuloStrip(a.content, b.content) /\ SameModuloStrip(a.tail, b.tail)
  /\ Len(a.kids) = Len(b.kids) /\ \A i \in 1..Len(a.kids) : SameUpToWs(a.kids[i], b.kids[i])
=============================================================================
