--------------------------------- MODULE Text ---------------------------------
(***************************************************************************)
(* Whitespace policies over texts as sequences of code points.             *)
(*   C20  Normalize / NormOK       - metapype.model.normalize (text mode)  *)
(*        NormalizeSpace           - XPath normalize-space (xml mode)      *)
(*   C08  Clean                    - the import whitespace policy          *)
(* NONE (the one-element sequence <<-1>>) stands for Python None.          *)
(***************************************************************************)
EXTENDS Naturals, Integers, Sequences, FiniteSets

SP == 32  TAB == 9  LF == 10  CR == 13  NBSP == 160
NONE == <<-1>>
XmlWs == {SP, TAB, LF, CR}            \* XML whitespace
AnyWs == XmlWs \cup {NBSP}

RECURSIVE SplitOn(_, _, _)
(* maximal runs of characters outside ws, in order *)
SplitOn(s, ws, cur) == IF s = <<>> THEN (IF cur = <<>> THEN <<>> ELSE <<cur>>)
                       ELSE IF Head(s) \in ws THEN (IF cur = <<>> THEN <<>> ELSE <<cur>>) \o SplitOn(Tail(s), ws, <<>>)
                       ELSE SplitOn(Tail(s), ws, Append(cur, Head(s)))
Words(s) == SplitOn(s, AnyWs, <<>>)
RECURSIVE Join(_)
Join(ws) == IF ws = <<>> THEN <<>> ELSE IF Len(ws) = 1 THEN ws[1] ELSE ws[1] \o <<SP>> \o Join(Tail(ws))
RECURSIVE LStrip(_, _)
LStrip(s, ws) == IF s # <<>> /\ Head(s) \in ws THEN LStrip(Tail(s), ws) ELSE s
RECURSIVE RStrip(_, _)
RStrip(s, ws) == IF s # <<>> /\ s[Len(s)] \in ws THEN RStrip(SubSeq(s, 1, Len(s) - 1), ws) ELSE s
Strip(s, ws) == RStrip(LStrip(s, ws), ws)
NoNbsp(s) == [i \in 1..Len(s) |-> IF s[i] = NBSP THEN SP ELSE s[i]]

(* ---- C20, text mode ---- *)
NormOK(in, out) ==
  /\ \A i \in 1..Len(out) : out[i] # NBSP                       \* no non-breaking space
  /\ (out # <<>> => out[1] # SP /\ out[Len(out)] # SP)          \* no leading / trailing space
  /\ \A i \in 1..(Len(out) - 1) : ~(out[i] = SP /\ out[i+1] = SP) \* no run of spaces
  /\ Words(out) = Words(in)                                     \* the words, in order
(* the spec's own normaliser: the words joined by single spaces *)
Normalize(s) == Join(Words(s))

(* ---- C20, xml mode: XPath normalize-space on the NBSP-replaced text ---- *)
NormalizeSpace(s) == Join(SplitOn(s, XmlWs, <<>>))
Blankish(s) == s = NONE \/ Strip(s, XmlWs) = <<>>               \* blank == absent (indentation may surround it)
SameModuloStrip(a, b) == (Blankish(a) /\ Blankish(b)) \/ (a # NONE /\ b # NONE /\ Strip(a, XmlWs) = Strip(b, XmlWs))

(* ---- C08: the import whitespace policy ---- *)
AllOf(s, set) == s # <<>> /\ \A i \in 1..Len(s) : s[i] \in set
CleanUnspec(s) == s # NONE /\ (\E i \in 1..Len(s) : s[i] = NBSP) /\ ~AllOf(s, {SP, TAB, NBSP})   \* NBSP next to other text
Clean(s, collapse) ==
  IF s = NONE THEN NONE
  ELSE IF AllOf(s, {SP, TAB, NBSP}) THEN s                      \* only spaces / tabs / non-breaking spaces: kept
  ELSE LET t == Strip(s, XmlWs) IN
       IF t = <<>> THEN NONE
       ELSE IF collapse THEN Join(SplitOn(t, XmlWs, <<>>)) ELSE t
ImportText(s, clean, collapse, literal) == IF ~clean \/ literal THEN s ELSE Clean(s, collapse)
=============================================================================
