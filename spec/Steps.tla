------------------------------- MODULE Steps --------------------------------
(***************************************************************************)
(* Step functions S -> S of the public mutators of model/node.py, shared   *)
(* by the bounded instances (Metapype.tla) and by trace validation         *)
(* (TraceForest.tla).  See Forest.tla for the shape of a state record.     *)
(***************************************************************************)
EXTENDS Forest

EmptyState == [name |-> <<>>, kids |-> <<>>, ns |-> <<>>, content |-> <<>>, tail |-> <<>>,
               prefix |-> <<>>, attrs |-> <<>>, extras |-> <<>>, store |-> {}]

----------------------------------------------------------------------------
(* step functions: S -> S *)

NewNode(S, nm) ==          \* Node(name): fresh id = next in creation order, registered, all fields empty
  [S EXCEPT !.name = Append(@, nm), !.kids = Append(@, <<>>), !.ns = Append(@, {}),
            !.content = Append(@, NULL), !.tail = Append(@, NULL), !.prefix = Append(@, NOSTR),
            !.attrs = Append(@, <<>>), !.extras = Append(@, <<>>), !.store = @ \cup {Len(S.kids) + 1}]

RECURSIVE MkNodes(_, _)
MkNodes(S, nms) == IF nms = <<>> THEN S ELSE MkNodes(NewNode(S, Head(nms)), Tail(nms))

(* import of a document with fresh ids: shape[k] = position of the parent of the k-th node in
   pre-order (0 for the root); nodes are created, and registered, in pre-order *)
ImportF(S, nm, shape) ==
  LET base == Size(S)  n == Len(shape)
      S1 == MkNodes(S, [k \in 1..n |-> nm])
      kidsOf(j) == SelectSeq([k \in 1..n |-> k], LAMBDA k : shape[k] = j)
  IN [S1 EXCEPT !.kids = [i \in 1..(base + n) |->
        IF i <= base THEN S.kids[i] ELSE [x \in 1..Len(kidsOf(i - base)) |-> base + kidsOf(i - base)[x]]]]

AddChildF(S, p, c, i) ==
  [S EXCEPT !.kids = AddChildK(S.kids, p, c, i), !.ns = AttachNS(S.kids, S.ns, p, c)]
RemoveChildF(S, p, c)    == [S EXCEPT !.kids = RemoveChildK(S.kids, p, c)]
RemoveChildrenF(S, p)    == [S EXCEPT !.kids = RemoveChildrenK(S.kids, p)]
ReplaceChildF(S, p, o, n, del) ==        \* replace does NOT merge namespaces (add_child does)
  [S EXCEPT !.kids = ReplaceChildK(S.kids, p, o, n),
            !.store = IF del /\ n # o THEN @ \ Desc(S.kids, o) ELSE @]   \* replacing a child by itself discards nothing
ShiftF(S, p, c, dir, sib) == [S EXCEPT !.kids = ShiftK(S.kids, S.name, p, c, dir, sib).kids]
ShiftRet(S, p, c, dir, sib) == ShiftK(S.kids, S.name, p, c, dir, sib).ret

AddNamespaceF(S, n, q, u) == [S EXCEPT !.ns = AddNamespaceNS(S.kids, S.ns, n, q, u)]
RemoveNamespaceF(S, n, q) == [S EXCEPT !.ns = RemoveNamespaceNS(S.kids, S.ns, n, q)]

DeleteF(S, n, children) == [S EXCEPT !.store = IF children THEN @ \ Desc(S.kids, n) ELSE @ \ {n}]

SetContentF(S, n, t) == [S EXCEPT !.content[n] = t]
SetTailF(S, n, t)    == [S EXCEPT !.tail[n] = t]
SetNameF(S, n, x)    == [S EXCEPT !.name[n] = x]
SetPrefixF(S, n, q)  == [S EXCEPT !.prefix[n] = q]
PutKV(s, k, v) == IF \E i \in 1..Len(s) : s[i][1] = k
                  THEN [i \in 1..Len(s) |-> IF s[i][1] = k THEN <<k, v>> ELSE s[i]]   \* dict update keeps position
                  ELSE Append(s, <<k, v>>)
DelKV(s, k)    == SelectSeq(s, LAMBDA kv : kv[1] # k)
HasKey(s, k)   == \E i \in 1..Len(s) : s[i][1] = k
AddAttributeF(S, n, k, v)  == [S EXCEPT !.attrs[n] = PutKV(@, k, v)]
RemoveAttributeF(S, n, k)  == [S EXCEPT !.attrs[n] = DelKV(@, k)]
AddExtrasF(S, n, k, v)     == [S EXCEPT !.extras[n] = PutKV(@, k, v)]

(* copy: fresh ids in pre-order (the order the code creates them), every field equal,
   children mapped, all registered; the copy's root is not listed anywhere *)
CopyF(S, n) ==
  LET po   == PreOrder(S.kids, n)
      base == Size(S)
      new(m) == base + Pos(po, m)
      ext(f, g(_)) == f \o [i \in 1..Len(po) |-> g(po[i])]
  IN [name    |-> ext(S.name,    LAMBDA m : S.name[m]),
      kids    |-> ext(S.kids,    LAMBDA m : [j \in 1..Len(S.kids[m]) |-> new(S.kids[m][j])]),
      ns      |-> ext(S.ns,      LAMBDA m : S.ns[m]),
      content |-> ext(S.content, LAMBDA m : S.content[m]),
      tail    |-> ext(S.tail,    LAMBDA m : S.tail[m]),
      prefix  |-> ext(S.prefix,  LAMBDA m : S.prefix[m]),
      attrs   |-> ext(S.attrs,   LAMBDA m : S.attrs[m]),
      extras  |-> ext(S.extras,  LAMBDA m : S.extras[m]),
      store   |-> S.store \cup {base + i : i \in 1..Len(po)}]
CopyRet(S, n) == Size(S) + 1

(* structural equality of two subtrees of one state (C18) *)
RECURSIVE TreeEq(_, _, _)
TreeEq(S, a, b) ==
  /\ S.name[a] = S.name[b] /\ S.content[a] = S.content[b] /\ S.tail[a] = S.tail[b]
  /\ S.prefix[a] = S.prefix[b] /\ S.ns[a] = S.ns[b]
  /\ Range(S.attrs[a]) = Range(S.attrs[b]) /\ Range(S.extras[a]) = Range(S.extras[b])   \* dicts: order-insensitive
  /\ Len(S.kids[a]) = Len(S.kids[b])
  /\ \A i \in 1..Len(S.kids[a]) : TreeEq(S, S.kids[a][i], S.kids[b][i])

=============================================================================
