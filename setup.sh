#!/bin/sh
# Offline sanity check of everything the checks need; builds nothing that is not on disk.
set -e
cd "$(dirname "$0")"
/venv/bin/python -c "import lxml, hypothesis, sys; sys.path.insert(0, '/repo/src'); import metapype"
(cd spec && java -cp /opt/veriftools/tla/tla2tools.jar:/opt/veriftools/tla/CommunityModules-deps.jar tla2sany.SANY Metapype.tla >/dev/null)
mkdir -p .work evidence
echo setup-ok
